(** * Proofs for C14: the transitive import scan reaches exactly the closure of the resolved
    import graph; plugin marks only travel along edges that hand plugin status on; the
    classification of a file. *)
From Coq Require Import Arith Lia.
From PLS Require Import Spec.ImportsSpec Proofs.Basics.

Section ScanProofs.
  Variable fd : list (path * facts).
  Variable ws : path.
  Variable sp : option path.
  Variable dists : list dist.
  Variable pths : list (text * text).

  Notation targets := (targets fd sp dists pths).
  Notation analyse := (analyse fd).
  Notation file_exists := (file_exists fd).
  Notation succ := (succ fd sp dists pths).
  Notation visit_file := (visit_file fd sp dists pths).
  Notation import_rounds := (import_rounds fd sp dists pths).

  (** ** sets of paths *)
  Lemma add_path_in p q l : In q (add_path p l) <-> q = p \/ In q l.
  Proof.
    unfold add_path. destruct (mem_path p l) eqn:E.
    - apply mem_path_in in E. split; [tauto|]. intros [->|H]; assumption.
    - rewrite in_app_iff. cbn. split; [intros [H|[H|[]]]; auto|intros [H|H]; auto].
  Qed.

  Lemma analyse_cached p st q :
    In q (ss_cached (analyse p st)) <-> In q (ss_cached st) \/ (q = p /\ file_exists p = true).
  Proof.
    unfold ScanModel.analyse. destruct (ScanModel.file_exists fd p) eqn:E; cbn [ss_cached].
    - rewrite add_path_in. split; [intros [->|H]; auto|intros [H|[-> _]]; auto].
    - split; [auto|intros [H|[_ H]]; [exact H|discriminate]].
  Qed.
  Lemma analyse_plugin p st : ss_plugin (analyse p st) = ss_plugin st.
  Proof. unfold ScanModel.analyse. destruct (ScanModel.file_exists fd p); reflexivity. Qed.
  Lemma fold_analyse_cached l : forall st q,
    In q (ss_cached (fold_left (fun st p => analyse p st) l st)) <->
    In q (ss_cached st) \/ (In q l /\ file_exists q = true).
  Proof.
    induction l as [|p l IH]; intros st q; cbn [fold_left].
    - split; [auto|intros [H|[[] _]]; exact H].
    - rewrite IH, analyse_cached. cbn [In]. split.
      + intros [[H|[-> H]]|[H1 H2]]; auto.
      + intros [H|[[<-|H1] H2]]; auto.
  Qed.

  (** ** one file of a round *)
  Definition visit_targets (importer_plugin : bool) (x : ist) (l : list (path * bool)) : ist :=
    fold_left (fun (x : ist) (tb : path * bool) =>
                 let '(t, hands_on) := tb in
                 let st := i_st x in
                 let do_mark := importer_plugin && hands_on && negb (mem_path t (ss_plugin st)) in
                 let st' := if do_mark then mark t st else st in
                 let re := if do_mark && mem_path t (ss_cached st) then add_path t (i_re x) else i_re x in
                 let rev := if true && do_mark && mem_path t (i_proc x) then add_path t (i_rev x) else i_rev x in
                 let new := if negb (mem_path t (i_proc x)) && negb (mem_path t (ss_cached st)) then add_path t (i_new x) else i_new x in
                 mk_ist st' (i_proc x) new re rev) l x.

  Record vt_ok (b : bool) (l : list (path * bool)) (x x' : ist) : Prop := {
    vt_cached : ss_cached (i_st x') = ss_cached (i_st x);
    vt_proc : i_proc x' = i_proc x;
    vt_new : forall q, In q (i_new x') <-> In q (i_new x) \/ (In q (map fst l) /\ ~ In q (i_proc x) /\ ~ In q (ss_cached (i_st x)));
    vt_plugin_sound : forall q, In q (ss_plugin (i_st x')) -> In q (ss_plugin (i_st x)) \/ (b = true /\ In (q, true) l);
    vt_plugin_mono : forall q, In q (ss_plugin (i_st x)) -> In q (ss_plugin (i_st x'));
    vt_handed : b = true -> forall q, In (q, true) l -> In q (ss_plugin (i_st x'));
    vt_rev_mono : forall q, In q (i_rev x) -> In q (i_rev x');
    vt_rev_sound : forall q, In q (i_rev x') -> In q (i_rev x) \/ (In q (i_proc x) /\ In q (ss_plugin (i_st x')) /\ ~ In q (ss_plugin (i_st x)));
    vt_rev_complete : forall q, In q (i_proc x) -> In q (ss_plugin (i_st x')) -> ~ In q (ss_plugin (i_st x)) -> In q (i_rev x') }.

  Lemma visit_targets_spec b l : forall x, vt_ok b l x (visit_targets b x l).
  Proof.
    induction l as [|[t h] l IH]; intros x; cbn [visit_targets fold_left].
    - constructor; try reflexivity; try tauto.
      + intros q. cbn [map In]. tauto.
      + intros _ q [].
    - set (y := mk_ist _ _ _ _ _). specialize (IH y). fold (visit_targets b y l).
      destruct IH as [H1 H2 H3 H4 H5 H6 H7 H8 H9].
      set (dm := b && h && negb (mem_path t (ss_plugin (i_st x)))) in *.
      assert (Ec : ss_cached (i_st y) = ss_cached (i_st x)) by (unfold y; cbn [i_st]; destruct dm; reflexivity).
      assert (Ep : i_proc y = i_proc x) by reflexivity.
      assert (Ypl : forall q, In q (ss_plugin (i_st y)) <-> In q (ss_plugin (i_st x)) \/ (dm = true /\ q = t)).
      { intros q. unfold y. cbn [i_st]. destruct dm.
        - unfold mark. cbn [ss_plugin]. rewrite add_path_in. split; [intros [->|H]; auto|intros [H|[_ ->]]; auto].
        - split; [auto|intros [H|[H _]]; [exact H|discriminate]]. }
      assert (Yrev : forall q, In q (i_rev y) <-> In q (i_rev x) \/ (dm = true /\ q = t /\ In t (i_proc x))).
      { intros q. unfold y. cbn [i_rev andb]. destruct dm; cbn [andb].
        - destruct (mem_path t (i_proc x)) eqn:E.
          + apply mem_path_in in E. rewrite add_path_in. split; [intros [->|H]; auto|intros [H|[_ [-> _]]]; auto].
          + split; [auto|]. intros [H|[_ [_ H]]]; [exact H|]. apply mem_path_in in H. congruence.
        - split; [auto|intros [H|[H _]]; [exact H|discriminate]]. }
      assert (Dm : dm = true -> b = true /\ h = true /\ ~ In t (ss_plugin (i_st x))).
      { unfold dm. intros H. apply andb_prop in H as [H H3']. apply andb_prop in H as [Hb Hh].
        apply negb_true_iff in H3'. repeat split; try assumption. intros X. apply mem_path_in in X. congruence. }
      constructor.
      + now rewrite H1.
      + now rewrite H2.
      + intros q. rewrite H3, Ec, Ep. unfold y. cbn [i_new fst In map].
        destruct (negb (mem_path t (i_proc x)) && negb (mem_path t (ss_cached (i_st x)))) eqn:E.
        * apply andb_prop in E as [E1 E2]. apply negb_true_iff in E1, E2.
          assert (N1 : ~ In t (i_proc x)) by (intros X; apply mem_path_in in X; congruence).
          assert (N2 : ~ In t (ss_cached (i_st x))) by (intros X; apply mem_path_in in X; congruence).
          rewrite add_path_in. split.
          -- intros [[->|H]|[H Hn]]; [right; tauto|now left|right; tauto].
          -- intros [H|[[<-|H] Hn]]; [left; now right|left; now left|right; tauto].
        * split.
          -- intros [H|[H Hn]]; [now left|right; tauto].
          -- intros [H|[[<-|H] [Hn1 Hn2]]]; [now left| |right; tauto].
             exfalso. apply andb_false_iff in E as [E|E]; apply negb_false_iff in E; apply mem_path_in in E; tauto.
      + intros q Hq. apply H4 in Hq as [Hq|[Hb Hq]]; [|right; split; [exact Hb|now right]].
        apply Ypl in Hq as [Hq|[Hd ->]]; [now left|]. destruct (Dm Hd) as [Hb [Hh _]]. subst. right. split; [reflexivity|now left].
      + intros q Hq. apply H5. apply Ypl. now left.
      + intros Hb q [Hq|Hq]; [|now apply H6].
        injection Hq as -> ->. apply H5. apply Ypl.
        destruct (mem_path q (ss_plugin (i_st x))) eqn:E; [apply mem_path_in in E; now left|].
        right. split; [|reflexivity]. unfold dm. rewrite Hb. try rewrite E. reflexivity.
      + intros q Hq. apply H7. apply Yrev. now left.
      + intros q Hq. apply H8 in Hq as [Hq|[Hq1 [Hq2 Hq3]]].
        * apply Yrev in Hq as [Hq|[Hd [-> Hq]]]; [now left|]. right. destruct (Dm Hd) as [_ [_ Hn]].
          split; [exact Hq|]. split; [|exact Hn]. apply H5. apply Ypl. auto.
        * right. rewrite Ep in Hq1. split; [exact Hq1|]. split; [exact Hq2|]. intros X. apply Hq3. apply Ypl. now left.
      + intros q Hq1 Hq2 Hq3.
        destruct (mem_path q (ss_plugin (i_st y))) eqn:E.
        * apply mem_path_in in E. apply Ypl in E as [E|[Hd ->]]; [contradiction|]. apply H7. apply Yrev. right. auto.
        * apply H9; [now rewrite Ep|exact Hq2|]. intros X. apply mem_path_in in X. congruence.
  Qed.

  Lemma visit_file_unfold x F :
    visit_file true x F =
    if mem_path F (i_proc x) then x
    else visit_targets (mem_path F (ss_plugin (i_st x))) (mk_ist (i_st x) (F :: i_proc x) (i_new x) (i_re x) (i_rev x)) (targets (i_st x) F).
  Proof. reflexivity. Qed.

  (** ** one round and all rounds, over a successor function [tgf] (with the hand-on flags)
      that does not depend on the scan state (discharged below) *)
  Section Rounds.
    Variable tgf : path -> list (path * bool).
    Hypothesis tgf_is_targets : forall st F, targets st F = tgf F.
    Hypothesis tgf_exist : forall F q b, In (q, b) (tgf F) -> file_exists q = true.
    Definition tg (F : path) : list path := map fst (tgf F).
    Lemma tg_exist F q : In q (tg F) -> file_exists q = true.
    Proof. unfold tg. intros H. apply in_map_iff in H as [[t b] [<- H]]. eapply tgf_exist; eauto. Qed.

    Definition handed (st : sst) (F : path) : Prop := forall T, In (T, true) (tgf F) -> In T (ss_plugin st).

    Record round_ok (st0 : sst) (proc0 : list path) (x : ist) (done_ : list path) : Prop := {
      ro_cached : ss_cached (i_st x) = ss_cached st0;
      ro_proc : forall q, In q (i_proc x) <-> In q proc0 \/ In q done_;
      ro_new_sound : forall q, In q (i_new x) -> exists F, In F done_ /\ In q (tg F);
      ro_new_fresh : forall q, In q (i_new x) -> ~ In q (ss_cached st0);
      ro_expanded : forall F, In F done_ -> ~ In F proc0 ->
                              forall q, In q (tg F) -> In q (ss_cached st0) \/ In q (i_proc x) \/ In q (i_new x);
      ro_plugin_mono : forall q, In q (ss_plugin st0) -> In q (ss_plugin (i_st x));
      ro_plugin_closed : forall (Pinv : path -> Prop),
          (forall q, In q (ss_plugin st0) -> Pinv q) ->
          (forall F q, Pinv F -> In (q, true) (tgf F) -> Pinv q) ->
          forall q, In q (ss_plugin (i_st x)) -> Pinv q;
      ro_plugin_target : forall q, In q (ss_plugin (i_st x)) ->
                                   In q (ss_plugin st0) \/ exists F, In F done_ /\ ~ In F proc0 /\ In (q, true) (tgf F);
      ro_rev_proc : forall q, In q (i_rev x) -> In q (i_proc x) /\ In q (ss_plugin (i_st x)) /\ ~ In q (ss_plugin st0);
      ro_handed : (forall F, In F proc0 -> In F (ss_plugin st0) -> handed st0 F) ->
                  forall F, In F (i_proc x) -> In F (ss_plugin (i_st x)) -> In F (i_rev x) \/ handed (i_st x) F }.

    Lemma handed_mono st st' F : (forall q, In q (ss_plugin st) -> In q (ss_plugin st')) -> handed st F -> handed st' F.
    Proof. intros Hm H T HT. apply Hm. now apply H. Qed.

    Lemma round_fold l : forall st0 proc0 re0,
      round_ok st0 proc0 (fold_left (visit_file true) l (mk_ist st0 proc0 [] re0 [])) l.
    Proof.
      induction l as [|F l IH] using rev_ind; intros st0 proc0 re0.
      - cbn [fold_left]. constructor; cbn [i_st i_proc i_new i_rev].
        + reflexivity.
        + intros q; cbn; tauto.
        + intros q [].
        + intros q [].
        + intros G [].
        + intros q H; exact H.
        + intros Pinv H _ q Hq. now apply H.
        + intros q H. now left.
        + intros q [].
        + intros H F HF Hp. right. now apply H.
      - rewrite fold_left_app. cbn [fold_left]. specialize (IH st0 proc0 re0).
        set (x := fold_left (visit_file true) l (mk_ist st0 proc0 [] re0 [])) in *.
        destruct IH as [Hc Hp Hs Hfr He Hpm Hpc Hpt Hrp Hh].
        rewrite visit_file_unfold. destruct (mem_path F (i_proc x)) eqn:EF.
        + apply mem_path_in in EF. constructor; try assumption.
          * intros q. rewrite Hp, in_app_iff. cbn [In]. split; [tauto|]. intros [H|[H|[<-|[]]]]; auto.
            apply Hp in EF. exact EF.
          * intros q Hq. apply Hs in Hq as [G [HG Hq]]. exists G. rewrite in_app_iff. auto.
          * intros G HG Hn q Hq. apply in_app_iff in HG as [HG|[<-|[]]]; [now apply (He G)|].
            apply Hp in EF as [EF|EF]; [contradiction|]. now apply (He F).
          * intros q Hq. apply Hpt in Hq as [Hq|[G [HG [Hn Hq]]]]; [now left|]. right. exists G. rewrite in_app_iff. auto.
        + assert (NF : ~ In F (i_proc x)) by (intros X; apply mem_path_in in X; congruence).
          assert (NF0 : ~ In F proc0) by (intros X; apply NF; apply Hp; now left).
          set (bF := mem_path F (ss_plugin (i_st x))).
          set (y := mk_ist (i_st x) (F :: i_proc x) (i_new x) (i_re x) (i_rev x)).
          pose proof (visit_targets_spec bF (targets (i_st x) F) y) as V. rewrite tgf_is_targets in V.
          rewrite tgf_is_targets. set (x' := visit_targets bF y (tgf F)) in *.
          destruct V as [V1 V2 V3 V4 V5 V6 V7 V8 V9]. cbn [y i_st i_proc i_new i_rev] in V1, V2, V3, V4, V5, V6, V7, V8, V9.
          constructor.
          * now rewrite V1.
          * intros q. rewrite V2. cbn [In]. rewrite Hp, in_app_iff. cbn [In]. split; [intros [<-|[H|H]]; auto|].
            intros [H|[H|[<-|[]]]]; auto.
          * intros q Hq. apply V3 in Hq as [Hq|[Hq _]].
            -- apply Hs in Hq as [G [HG Hq]]. exists G. rewrite in_app_iff. auto.
            -- exists F. rewrite in_app_iff. cbn [In]. auto.
          * intros q Hq. apply V3 in Hq as [Hq|[_ [_ Hq]]]; [now apply Hfr|]. now rewrite <- Hc.
          * intros G HG Hn q Hq. rewrite V2. apply in_app_iff in HG as [HG|[<-|[]]].
            -- destruct (He G HG Hn q Hq) as [H|[H|H]]; [now left|right; left; now right|].
               right. right. apply V3. now left.
            -- destruct (mem_path q (F :: i_proc x)) eqn:E1; [apply mem_path_in in E1; right; left; exact E1|].
               destruct (mem_path q (ss_cached (i_st x))) eqn:E2; [apply mem_path_in in E2; left; now rewrite <- Hc|].
               right. right. apply V3. right. split; [exact Hq|].
               split; intros X; apply mem_path_in in X; congruence.
          * intros q Hq. apply V5. now apply Hpm.
          * intros Pinv H0 Hstep q Hq. apply V4 in Hq as [Hq|[Hb Hq]]; [now apply (Hpc Pinv)|].
            eapply Hstep; [|exact Hq]. apply (Hpc Pinv H0 Hstep). unfold bF in Hb. now apply mem_path_in in Hb.
          * intros q Hq. apply V4 in Hq as [Hq|[Hb Hq]].
            -- apply Hpt in Hq as [Hq|[G [HG [Hn Hq]]]]; [now left|]. right. exists G. rewrite in_app_iff. auto.
            -- right. exists F. rewrite in_app_iff. cbn [In]. auto.
          * intros q Hq. apply V8 in Hq as [Hq|[Hq1 [Hq2 Hq3]]].
            -- apply Hrp in Hq as [Hq1 [Hq2 Hq3]]. rewrite V2. split; [now right|]. split; [now apply V5|exact Hq3].
            -- rewrite V2. split; [exact Hq1|]. split; [exact Hq2|]. intros X. apply Hq3. now apply Hpm.
          * intros H0 G HG HGp. rewrite V2 in HG. destruct HG as [<-|HG].
            -- destruct bF eqn:EbF.
               ++ right. intros T HT. now apply V6.
               ++ exfalso. apply V4 in HGp as [HGp|[X _]]; [|discriminate].
                  unfold bF in EbF. apply mem_path_in in HGp. congruence.
            -- destruct (mem_path G (ss_plugin (i_st x))) eqn:EG.
               ++ apply mem_path_in in EG. destruct (Hh H0 G HG EG) as [Hr|Hd]; [left; now apply V7|].
                  right. eapply handed_mono; [|exact Hd]. exact V5.
               ++ left. apply V9; [now right|exact HGp|]. intros X. apply mem_path_in in X. congruence.
    Qed.

    Variable seeds : list path.
    Inductive reach_tg : path -> Prop :=
    | rt_seed F : In F seeds -> reach_tg F
    | rt_step F T : reach_tg F -> In T (tg F) -> reach_tg T.

    Variable P0 : list path.                     (* the plugin files before phase 4 *)
    Inductive preach : path -> Prop :=
    | pr_base F : In F P0 -> preach F
    | pr_step F T : preach F -> In (T, true) (tgf F) -> preach T.

    Record inv (st : sst) (proc to_check : list path) : Prop := {
      i_exist : forall q, In q (ss_cached st) -> file_exists q = true;
      i_seeds : forall q, In q seeds -> In q (ss_cached st);
      i_sound : forall q, In q (ss_cached st) \/ In q to_check \/ In q proc -> reach_tg q;
      i_frontier : forall q, In q (ss_cached st) -> In q proc \/ In q to_check;
      i_expanded : forall F, In F proc -> forall q, In q (tg F) -> In q (ss_cached st) \/ In q proc \/ In q to_check;
      i_done : forall q, In q proc \/ In q to_check -> file_exists q = true -> In q (ss_cached st);
      i_p0 : forall q, In q P0 -> In q (ss_plugin st);
      i_psound : forall q, In q (ss_plugin st) -> preach q;
      i_pcached : forall q, In q (ss_plugin st) -> In q (ss_cached st);
      i_handed : forall F, In F proc -> In F (ss_plugin st) -> handed st F }.

    Lemma fold_analyse_plugin' l : forall st, ss_plugin (fold_left (fun st p => analyse p st) l st) = ss_plugin st.
    Proof. induction l as [|p l IH]; intros st; [reflexivity|]. cbn [fold_left]. now rewrite IH, analyse_plugin. Qed.

    Lemma round_inv st proc to_check re :
      inv st proc to_check ->
      let x := fold_left (visit_file true) to_check (mk_ist st proc [] re []) in
      inv (fold_left (fun st p => analyse p st) (i_new x) (i_st x))
          (filter (fun p => negb (mem_path p (i_rev x))) (i_proc x)) (i_new x ++ i_rev x).
    Proof.
      intros [He Hsd Hs Hf Hx Hd Hp0 Hps Hpc Hh]. cbn zeta.
      pose proof (round_fold to_check st proc re) as R.
      set (x := fold_left (visit_file true) to_check (mk_ist st proc [] re [])) in *.
      destruct R as [Rc Rp Rs Rfr Re Rpm Rpcl Rpt Rrp Rh].
      assert (InP : forall q, In q (filter (fun p => negb (mem_path p (i_rev x))) (i_proc x)) <-> In q (i_proc x) /\ ~ In q (i_rev x)).
      { intros q. rewrite filter_In. split; intros [H1 H2]; split; try exact H1.
        - apply negb_true_iff in H2. intros X. apply mem_path_in in X. congruence.
        - apply negb_true_iff. destruct (mem_path q (i_rev x)) eqn:E; [apply mem_path_in in E; contradiction|reflexivity]. }
      assert (Split : forall q, In q (i_proc x) -> In q (filter (fun p => negb (mem_path p (i_rev x))) (i_proc x)) \/ In q (i_new x ++ i_rev x)).
      { intros q Hq. destruct (mem_path q (i_rev x)) eqn:E.
        - apply mem_path_in in E. right. apply in_or_app. now right.
        - left. apply InP. split; [exact Hq|]. intros X. apply mem_path_in in X. congruence. }
      assert (Hnew : forall q, In q (i_new x) -> reach_tg q).
      { intros q Hq. apply Rs in Hq as [F [HF Hq]]. eapply rt_step; [|exact Hq]. apply Hs. auto. }
      constructor.
      - intros q Hq. apply fold_analyse_cached in Hq as [Hq|[_ Hq]]; [|exact Hq]. rewrite Rc in Hq. now apply He.
      - intros q Hq. apply fold_analyse_cached. left. rewrite Rc. now apply Hsd.
      - intros q [Hq|[Hq|Hq]].
        + apply fold_analyse_cached in Hq as [Hq|[Hq _]]; [rewrite Rc in Hq; apply Hs; now left|now apply Hnew].
        + apply in_app_iff in Hq as [Hq|Hq]; [now apply Hnew|].
          apply Rrp in Hq as [Hq _]. apply Rp in Hq as [Hq|Hq]; apply Hs; auto.
        + apply InP in Hq as [Hq _]. apply Rp in Hq as [Hq|Hq]; apply Hs; auto.
      - intros q Hq. apply fold_analyse_cached in Hq as [Hq|[Hq _]]; [|right; apply in_or_app; now left].
        rewrite Rc in Hq. apply Split. apply Rp. apply Hf in Hq as [Hq|Hq]; auto.
      - intros F HF q Hq. apply InP in HF as [HF _].
        assert (Old : In F proc -> In q (ss_cached (fold_left (fun st p => analyse p st) (i_new x) (i_st x)))
                                   \/ In q (filter (fun p => negb (mem_path p (i_rev x))) (i_proc x)) \/ In q (i_new x ++ i_rev x)).
        { intros Hin. destruct (Hx F Hin q Hq) as [H|[H|H]].
          - left. apply fold_analyse_cached. left. now rewrite Rc.
          - right. apply Split. apply Rp. now left.
          - right. apply Split. apply Rp. now right. }
        apply Rp in HF as [HF|HF]; [now apply Old|].
        destruct (mem_path F proc) eqn:E; [apply mem_path_in in E; now apply Old|].
        assert (Hn : ~ In F proc) by (intros X; apply mem_path_in in X; congruence).
        destruct (Re F HF Hn q Hq) as [H|[H|H]].
        + left. apply fold_analyse_cached. left. rewrite Rc. exact H.
        + right. now apply Split.
        + right. right. apply in_or_app. now left.
      - intros q Hq Hex. apply fold_analyse_cached. destruct Hq as [Hq|Hq].
        + apply InP in Hq as [Hq _]. apply Rp in Hq as [Hq|Hq]; left; rewrite Rc; apply Hd; auto.
        + apply in_app_iff in Hq as [Hq|Hq]; [right; auto|].
          apply Rrp in Hq as [Hq _]. apply Rp in Hq as [Hq|Hq]; left; rewrite Rc; apply Hd; auto.
      - intros q Hq. rewrite fold_analyse_plugin'. apply Rpm. now apply Hp0.
      - intros q Hq. rewrite fold_analyse_plugin' in Hq.
        apply (Rpcl preach); [exact Hps|intros F0 q0 HF0 Hq0; eapply pr_step; eauto|exact Hq].
      - intros q Hq. rewrite fold_analyse_plugin' in Hq. apply fold_analyse_cached.
        apply Rpt in Hq as [Hq|[F [HF [Hn Hq]]]]; [left; rewrite Rc; now apply Hpc|].
        assert (Hex : file_exists q = true) by (eapply tgf_exist; eauto).
        assert (Hqt : In q (tg F)) by (unfold tg; apply in_map_iff; exists (q, true); auto).
        destruct (Re F HF Hn q Hqt) as [H|[H|H]].
        + left. now rewrite Rc.
        + left. rewrite Rc. apply Rp in H as [H|H]; apply Hd; auto.
        + right. auto.
      - intros F HF HFp. apply InP in HF as [HF Hnr]. rewrite fold_analyse_plugin' in HFp.
        destruct (Rh Hh F HF HFp) as [H|H]; [contradiction|].
        intros T HT. rewrite fold_analyse_plugin'. now apply H.
    Qed.

    Lemma rounds_inv : forall fuel st proc to_check re st' re',
      inv st proc to_check ->
      import_rounds true fuel st proc to_check re = Some (st', re') ->
      exists proc', inv st' proc' [].
    Proof.
      induction fuel as [|fuel IH]; intros st proc to_check re st' re' Hinv Hr; [discriminate|].
      cbn [ScanModel.import_rounds] in Hr. destruct to_check as [|t0 tc].
      - injection Hr as <- <-. exists proc. exact Hinv.
      - pose proof (round_inv st proc (t0 :: tc) re Hinv) as R. cbn zeta in R.
        set (x := fold_left (visit_file true) (t0 :: tc) (mk_ist st proc [] re [])) in *.
        destruct (i_new x) as [|n0 nr] eqn:En; destruct (i_rev x) as [|r0 rr] eqn:Er.
        + injection Hr as <- <-. cbn [fold_left app filter] in R. eexists. exact R.
        + eapply IH; [exact R|exact Hr].
        + eapply IH; [exact R|exact Hr].
        + eapply IH; [exact R|exact Hr].
    Qed.

    Section Final.
      Variables (fuel : nat) (st st' : sst) (re re' : list path).
      Hypothesis Hex : forall q, In q (ss_cached st) -> file_exists q = true.
      Hypothesis Hseeds : forall q, In q (ss_cached st) <-> In q seeds.
      Hypothesis HP0 : forall q, In q (ss_plugin st) <-> In q P0.
      Hypothesis HP0c : forall q, In q P0 -> In q (ss_cached st).
      Hypothesis Hr : import_rounds true fuel st [] seeds re = Some (st', re').

      Lemma final_inv : exists proc', inv st' proc' [].
      Proof.
        apply (rounds_inv fuel st [] seeds re st' re'); [|exact Hr]. constructor.
        - exact Hex.
        - intros q Hq. now apply Hseeds.
        - intros q [Hq|[Hq|[]]]; apply rt_seed; [now apply Hseeds|exact Hq].
        - intros q Hq. right. now apply Hseeds.
        - intros F [].
        - intros q [[]|Hq] _. now apply Hseeds.
        - intros q Hq. now apply HP0.
        - intros q Hq. apply pr_base. now apply HP0.
        - intros q Hq. apply HP0c. now apply HP0.
        - intros F [].
      Qed.

      (** analysed = reachable from the seeds *)
      Theorem rounds_reach_closure : forall q, In q (ss_cached st') <-> reach_tg q.
      Proof.
        destruct final_inv as [proc' [He Hsd Hs Hf Hx Hd _ _ _ _]].
        intros q. split; [intros Hq; apply Hs; now left|].
        intros Hq. induction Hq as [F HF|F T HF IH HT]; [now apply Hsd|].
        destruct (Hf F IH) as [Hp|[]]. destruct (Hx F Hp T HT) as [H|[H|[]]]; [exact H|].
        apply Hd; [now left|]. eapply tg_exist; eauto.
      Qed.
      (** plugin files = reachable from the plugin files through hand-on edges: sound AND complete *)
      Theorem rounds_plugin_closure : forall q, In q (ss_plugin st') <-> preach q.
      Proof.
        destruct final_inv as [proc' [_ _ _ Hf _ _ Hp0 Hps Hpc Hh]].
        intros q. split; [apply Hps|].
        intros Hq. induction Hq as [F HF|F T HF IH HT]; [now apply Hp0|].
        destruct (Hf F (Hpc F IH)) as [Hp|[]]. now apply (Hh F Hp IH).
      Qed.
    End Final.

    (** ** the scan converges *)
    Definition pending (st : sst) : nat :=
      length (filter (fun p => negb (mem_path p (ss_cached st))) (map fst fd)).
    Definition unmarked (st : sst) : nat :=
      length (filter (fun p => negb (mem_path p (ss_plugin st))) (map fst fd)).
    Lemma filter_length_le_sub {A} (f g : A -> bool) l :
      (forall y, g y = true -> f y = true) -> (length (filter g l) <= length (filter f l))%nat.
    Proof.
      intros Hsub. induction l as [|z l IH]; [apply le_n|]. cbn [filter]. destruct (g z) eqn:E.
      - rewrite (Hsub z E). cbn [length]. now apply le_n_S.
      - destruct (f z); cbn [length]; [now apply le_S|exact IH].
    Qed.
    Lemma filter_length_lt {A} (f g : A -> bool) l x :
      (forall y, g y = true -> f y = true) -> In x l -> f x = true -> g x = false ->
      (length (filter g l) < length (filter f l))%nat.
    Proof.
      intros Hsub. induction l as [|y l IH]; intros Hin Hf Hg; [contradiction|].
      cbn [filter]. destruct Hin as [->|Hin].
      - rewrite Hf, Hg. cbn [length]. apply le_n_S. now apply filter_length_le_sub.
      - destruct (g y) eqn:E.
        + rewrite (Hsub y E). cbn [length]. apply -> Nat.succ_lt_mono. now apply IH.
        + destruct (f y); cbn [length]; [apply Nat.lt_lt_succ_r|]; now apply IH.
    Qed.
    Lemma file_exists_key q : file_exists q = true -> In q (map fst fd).
    Proof.
      unfold ScanModel.file_exists, ahas. intros H. apply existsb_exists in H as [[k v] [Hin Hk]].
      cbn [fst] in Hk. apply path_eqb_eq in Hk. subst k. apply in_map_iff. exists (q, v). auto.
    Qed.
    Lemma not_mem_sub (a b : list path) : (forall q, In q a -> In q b) ->
      forall y, negb (mem_path y b) = true -> negb (mem_path y a) = true.
    Proof.
      intros H y Hy. apply negb_true_iff in Hy. apply negb_true_iff.
      destruct (mem_path y a) eqn:E; [|reflexivity]. apply mem_path_in in E. apply H in E. apply mem_path_in in E. congruence.
    Qed.

    Theorem rounds_converge : forall fuel st proc to_check re,
      (pending st + unmarked st < fuel)%nat ->
      import_rounds true fuel st proc to_check re <> None.
    Proof.
      induction fuel as [|fuel IH]; intros st proc to_check re Hlt; [inversion Hlt|].
      cbn [ScanModel.import_rounds]. destruct to_check as [|t0 tc]; [discriminate|].
      pose proof (round_fold (t0 :: tc) st proc re) as R.
      set (x := fold_left (visit_file true) (t0 :: tc) (mk_ist st proc [] re [])) in *.
      destruct R as [Rc _ Rs Rf _ Rpm _ Rpt Rrp _].
      set (st2 := fold_left (fun st p => analyse p st) (i_new x) (i_st x)).
      assert (Cm : forall q, In q (ss_cached st) -> In q (ss_cached st2)).
      { intros q Hq. apply fold_analyse_cached. left. now rewrite Rc. }
      assert (Pm : forall q, In q (ss_plugin st) -> In q (ss_plugin st2)).
      { intros q Hq. unfold st2. rewrite fold_analyse_plugin'. now apply Rpm. }
      assert (Le1 : (pending st2 <= pending st)%nat) by (apply filter_length_le_sub; now apply not_mem_sub).
      assert (Le2 : (unmarked st2 <= unmarked st)%nat) by (apply filter_length_le_sub; now apply not_mem_sub).
      assert (Step : (i_new x <> [] \/ i_rev x <> []) -> (pending st2 + unmarked st2 < fuel)%nat).
      { intros [Hn|Hn].
        - destruct (i_new x) as [|n0 nr] eqn:En; [contradiction|].
          assert (Hn0 : In n0 (n0 :: nr)) by now left.
          destruct (Rs n0 Hn0) as [F [_ HF]]. apply tg_exist in HF. pose proof (Rf n0 Hn0) as Hfresh.
          assert (Lt : (pending st2 < pending st)%nat).
          { unfold pending. eapply filter_length_lt with (x := n0).
            - now apply not_mem_sub.
            - now apply file_exists_key.
            - apply negb_true_iff. destruct (mem_path n0 (ss_cached st)) eqn:E; [apply mem_path_in in E; contradiction|reflexivity].
            - apply negb_false_iff. apply mem_path_in. unfold st2. apply fold_analyse_cached. right. split; [now left|exact HF]. }
          apply Nat.lt_le_trans with (m := (pending st + unmarked st)%nat); [apply Nat.add_lt_le_mono; assumption|].
          now apply Nat.lt_succ_r.
        - destruct (i_rev x) as [|r0 rr] eqn:Er; [contradiction|].
          assert (Hr0 : In r0 (r0 :: rr)) by now left.
          destruct (Rrp r0 Hr0) as [_ [Hp1 Hp2]].
          assert (Hex0 : file_exists r0 = true).
          { apply Rpt in Hp1 as [Hp1|[F [_ [_ Hq]]]]; [contradiction|]. eapply tgf_exist; eauto. }
          assert (Lt : (unmarked st2 < unmarked st)%nat).
          { unfold unmarked. eapply filter_length_lt with (x := r0).
            - now apply not_mem_sub.
            - now apply file_exists_key.
            - apply negb_true_iff. destruct (mem_path r0 (ss_plugin st)) eqn:E; [apply mem_path_in in E; contradiction|reflexivity].
            - apply negb_false_iff. apply mem_path_in. unfold st2. now rewrite fold_analyse_plugin'. }
          apply Nat.lt_le_trans with (m := (pending st + unmarked st)%nat); [apply Nat.add_le_lt_mono; assumption|].
          now apply Nat.lt_succ_r. }
      destruct (i_new x) as [|n0 nr] eqn:En; destruct (i_rev x) as [|r0 rr] eqn:Er; [discriminate| | |];
        apply IH; apply Step; [right|left|left]; discriminate.
    Qed.
  End Rounds.

  (** ** resolution only looks at the tree: the hypotheses of [rounds_reach_closure] hold for
      the resolved import graph [succ] *)
  Notation dk := (dk fd).
  Definition cache_on_disk (s : Index.index) : Prop := forall p, in_cache s p = true -> disk_file dk p = true.

  Lemma ahas_map {V W} (f : V -> W) p (m : list (path * V)) : ahas p (map (fun kv => (fst kv, f (snd kv))) m) = ahas p m.
  Proof. unfold ahas. induction m as [|kv m IH]; [reflexivity|]. cbn [map existsb fst]. now rewrite IH. Qed.
  Lemma disk_file_exists p : disk_file dk p = file_exists p.
  Proof. unfold disk_file, ScanModel.dk, ScanModel.file_exists. apply ahas_map. Qed.

  Lemma idx_cache_on_disk st : cache_on_disk (idx_of fd st).
  Proof.
    intros p H. rewrite disk_file_exists. unfold in_cache, idx_of in H. cbn [file_cache set_plugin_files set_file_cache] in H.
    unfold ahas in H. apply existsb_exists in H as [[k v] [Hin Hk]]. cbn [fst] in Hk. apply path_eqb_eq in Hk. subst k.
    apply in_flat_map in Hin as [q [_ Hq]]. destruct (alookup q fd) as [w|] eqn:E; [|contradiction].
    destruct Hq as [Hq|[]]. injection Hq as -> _.
    unfold alookup in E. destruct (List.find (fun kv => path_eqb (fst kv) p) fd) as [kv|] eqn:Ef; [|discriminate].
    apply find_some in Ef as [Hin Hk]. unfold ScanModel.file_exists, ahas. apply existsb_exists. eauto.
  Qed.

  Lemma fmf_indep s1 s2 : cache_on_disk s1 -> cache_on_disk s2 ->
    forall parts base, find_module_file dk s1 parts base = find_module_file dk s2 parts base.
  Proof.
    intros H1 H2. induction parts as [|part rest IH]; intros base; [reflexivity|].
    destruct rest as [|r rest'].
    - cbn [find_module_file].
      assert (E : forall p, disk_file dk p || in_cache s1 p = (disk_file dk p || in_cache s2 p)).
      { intros p. destruct (disk_file dk p) eqn:Ed; [reflexivity|]. cbn [orb].
        destruct (in_cache s1 p) eqn:E1; [apply H1 in E1; congruence|].
        destruct (in_cache s2 p) eqn:E2; [apply H2 in E2; congruence|reflexivity]. }
      now rewrite !E.
    - change (find_module_file dk s1 (part :: r :: rest') base) with
        (if disk_dir dk (part :: base) then find_module_file dk s1 (r :: rest') (part :: base) else None).
      change (find_module_file dk s2 (part :: r :: rest') base) with
        (if disk_dir dk (part :: base) then find_module_file dk s2 (r :: rest') (part :: base) else None).
      now rewrite IH.
  Qed.
  Lemma fmf_exists s : cache_on_disk s ->
    forall parts base p, find_module_file dk s parts base = Some p -> file_exists p = true.
  Proof.
    intros Hc. induction parts as [|part rest IH]; intros base p H; [discriminate|].
    destruct rest as [|r rest'].
    - cbn [find_module_file] in H. cbv zeta in H.
      match type of H with (if ?c then _ else _) = _ => destruct c eqn:E1 end.
      + injection H as <-. rewrite <- disk_file_exists. apply orb_prop in E1 as [E|E]; [exact E|now apply Hc].
      + match type of H with (if ?c then _ else _) = _ => destruct c eqn:E2 end; [|discriminate].
        injection H as <-. rewrite <- disk_file_exists. apply orb_prop in E2 as [E|E]; [exact E|now apply Hc].
    - change (find_module_file dk s (part :: r :: rest') base) with
        (if disk_dir dk (part :: base) then find_module_file dk s (r :: rest') (part :: base) else None) in H.
      destruct (disk_dir dk (part :: base)); [|discriminate]. eapply IH; eauto.
  Qed.

  Lemma first_some_ext {A B} (f g : A -> option B) l : (forall x, f x = g x) -> first_some f l = first_some g l.
  Proof. intros H. induction l as [|x l IH]; [reflexivity|]. cbn. now rewrite H, IH. Qed.
  Lemma first_some_some {A B} (f : A -> option B) l y : first_some f l = Some y -> exists x, In x l /\ f x = Some y.
  Proof.
    induction l as [|x l IH]; [discriminate|]. cbn. destruct (f x) eqn:E.
    - intros H. injection H as <-. exists x. auto.
    - intros H. apply IH in H as [z [H1 H2]]. exists z. auto.
  Qed.

  Lemma resolve_edge_indep s1 s2 rs F e : cache_on_disk s1 -> cache_on_disk s2 ->
    resolve_edge dk s1 rs F e = resolve_edge dk s2 rs F e.
  Proof.
    intros H1 H2. unfold resolve_edge. destruct F as [|n base]; [reflexivity|].
    destruct (0 <? e_level e)%N.
    - unfold resolve_relative. destruct (up _ base) as [d|]; [|reflexivity].
      destruct (e_mod e); [reflexivity|]. now apply fmf_indep.
    - destruct (e_mod e) as [|m ms]; [reflexivity|]. unfold resolve_absolute.
      rewrite (first_some_ext _ (find_module_file dk s2 (m :: ms)) (ancestors base)) by (intros; now apply fmf_indep).
      rewrite (first_some_ext _ (find_module_file dk s2 (m :: ms)) rs) by (intros; now apply fmf_indep).
      reflexivity.
  Qed.
  Lemma resolve_edge_exists s rs F e T : cache_on_disk s -> resolve_edge dk s rs F e = Some T -> file_exists T = true.
  Proof.
    intros Hc. unfold resolve_edge. destruct F as [|n base]; [discriminate|].
    destruct (0 <? e_level e)%N.
    - unfold resolve_relative. destruct (up _ base) as [d|]; [|discriminate].
      destruct (e_mod e) as [|m ms].
      + destruct (disk_file dk (init_py :: d)) eqn:E; [|discriminate]. intros H. injection H as <-. now rewrite <- disk_file_exists.
      + now apply fmf_exists.
    - destruct (e_mod e) as [|m ms]; [discriminate|]. unfold resolve_absolute.
      destruct (first_some _ (ancestors base)) as [p|] eqn:E1.
      + intros H. injection H as <-. apply first_some_some in E1 as [x [_ Hx]]. eapply fmf_exists; eauto.
      + intros H. apply first_some_some in H as [x [_ Hx]]. eapply fmf_exists; eauto.
  Qed.

  Lemma targets_indep st F : map fst (targets st F) = succ F.
  Proof.
    unfold ImportsSpec.succ, ScanModel.targets. destruct (alookup F fd) as [v|]; [|reflexivity].
    destruct (f_ok v); [|reflexivity].
    induction (f_edges v) as [|e es IH]; [reflexivity|]. cbn [flat_map]. rewrite !map_app, IH. f_equal.
    rewrite (resolve_edge_indep (idx_of fd st) (idx_of fd (all_cached fd)) _ F e (idx_cache_on_disk _) (idx_cache_on_disk _)).
    destruct (resolve_edge _ _ _ F e); reflexivity.
  Qed.
  Lemma succ_exists F T : In T (succ F) -> file_exists T = true.
  Proof.
    unfold ImportsSpec.succ, ScanModel.targets. destruct (alookup F fd) as [v|]; [|intros []].
    destruct (f_ok v); [|intros []]. intros H. apply in_map_iff in H as [[t b] [<- H]]. cbn [fst].
    apply in_flat_map in H as [e [_ He]].
    destruct (resolve_edge dk (idx_of fd (all_cached fd)) (roots fd sp dists pths) F e) as [t'|] eqn:E; [|contradiction].
    destruct He as [He|[]]. injection He as <- _. eapply resolve_edge_exists; [apply idx_cache_on_disk|exact E].
  Qed.

  Lemma targets_indep_full st F : targets st F = targets (all_cached fd) F.
  Proof.
    unfold ScanModel.targets. destruct (alookup F fd) as [v|]; [|reflexivity].
    destruct (f_ok v); [|reflexivity].
    induction (f_edges v) as [|e es IH]; [reflexivity|]. cbn [flat_map]. rewrite IH. f_equal.
    now rewrite (resolve_edge_indep (idx_of fd st) (idx_of fd (all_cached fd)) _ F e (idx_cache_on_disk _) (idx_cache_on_disk _)).
  Qed.
  Lemma targets_exist F q b : In (q, b) (targets (all_cached fd) F) -> file_exists q = true.
  Proof.
    intros H. apply succ_exists with (F := F). unfold ImportsSpec.succ. apply in_map_iff. exists (q, b). auto.
  Qed.

  Inductive plugin_reach (P0 : list path) : path -> Prop :=
  | plr_base F : In F P0 -> plugin_reach P0 F
  | plr_step F T : plugin_reach P0 F -> In (T, true) (targets (all_cached fd) F) -> plugin_reach P0 T.

  Section Top.
    Variables st st' : sst.
    Hypothesis Hex : forall q, In q (ss_cached st) -> file_exists q = true.
    Hypothesis Hseeds : forall q, In q (ss_cached st) -> In q (seed_files fd sp dists pths st).
    Hypothesis Hplug : forall q, In q (ss_plugin st) -> In q (ss_cached st).
    Hypothesis Hs : import_scan_opt fd sp dists pths st = Some st'.

    Lemma top_rounds : exists re, import_rounds true (S (S (length fd + length fd))) st [] (seed_files fd sp dists pths st) [] = Some (st', re).
    Proof.
      unfold import_scan_opt, import_scan_with in Hs.
      destruct (import_rounds true _ st [] (seed_files fd sp dists pths st) []) as [[st'' re]|] eqn:E; [|discriminate].
      injection Hs as <-. eauto.
    Qed.
    Lemma Hss : forall q0, In q0 (ss_cached st) <-> In q0 (seed_files fd sp dists pths st).
    Proof. intros q0. split; [apply Hseeds|]. unfold seed_files. intros H. apply filter_In in H. tauto. Qed.

    (** ** the theorem: a converged import scan has analysed exactly the seeds and everything
        reachable from them through resolved star imports, explicit imports and
        pytest_plugins entries — on any tree, any import graph (cycles, diamonds, chains) *)
    Theorem import_scan_reaches_closure :
      forall q, In q (ss_cached st') <-> reach fd sp dists pths (seed_files fd sp dists pths st) q.
    Proof.
      destruct top_rounds as [re E]. intros q.
      rewrite (rounds_reach_closure (targets (all_cached fd)) targets_indep_full targets_exist
                 (seed_files fd sp dists pths st) (ss_plugin st) _ st st' [] re Hex Hss (fun q0 => iff_refl _) Hplug E q).
      split; intros H; induction H as [F HF|F T HF IH HT];
        [now apply reach_seed|eapply reach_step; eauto|now apply rt_seed|eapply rt_step; eauto].
    Qed.

    (** ... and has marked as plugin files exactly the plugin files it started from and what
        is reachable from them through star imports and pytest_plugins entries (since fix
        92543e7 in whatever order the files of a round are visited) *)
    Theorem import_scan_plugin_closure :
      forall q, In q (ss_plugin st') <-> plugin_reach (ss_plugin st) q.
    Proof.
      destruct top_rounds as [re E]. intros q.
      rewrite (rounds_plugin_closure (targets (all_cached fd)) targets_indep_full targets_exist
                 (seed_files fd sp dists pths st) (ss_plugin st) _ st st' [] re Hex Hss (fun q0 => iff_refl _) Hplug E q).
      split; intros H; induction H as [F HF|F T HF IH HT];
        [now apply plr_base|eapply plr_step; eauto|now apply pr_base|eapply pr_step; eauto].
    Qed.
  End Top.

  (** the scan always converges within the model's fuel *)
  Theorem import_scan_converges st : import_scan_opt fd sp dists pths st <> None.
  Proof.
    unfold import_scan_opt, import_scan_with.
    pose proof (rounds_converge (targets (all_cached fd)) targets_indep_full targets_exist
                  (S (S (length fd + length fd))) st [] (seed_files fd sp dists pths st) []) as R.
    destruct (import_rounds true _ st [] _ []) as [[st' re]|]; [discriminate|].
    exfalso. apply R; [|reflexivity].
    assert (B : forall f : path -> bool, (length (filter f (map fst fd)) <= length fd)%nat).
    { intros f. rewrite <- (map_length fst fd). generalize (map fst fd) as l.
      induction l as [|y l IHl]; [apply le_n|]. cbn [filter]. destruct (f y); cbn [length]; [now apply le_n_S|now apply le_S]. }
    unfold pending, unmarked.
    pose proof (B (fun p => negb (mem_path p (ss_cached st)))). pose proof (B (fun p => negb (mem_path p (ss_plugin st)))). lia.
  Qed.

  (** ** phases 2 and 3 establish the hypotheses of the closure theorems *)
  Record phase_ok (st : sst) : Prop := {
    po_exist : forall q, In q (ss_cached st) -> file_exists q = true;
    po_plugin_cached : forall q, In q (ss_plugin st) -> In q (ss_cached st);
    po_seed : forall q, In q (ss_cached st) ->
                        (match q with n :: _ => is_test_file_name n | [] => false end) = true \/ In q (ss_plugin st) }.

  Lemma file_exists_in q : In q (map fst fd) -> file_exists q = true.
  Proof.
    intros H. apply in_map_iff in H as [[k v] [Hk Hin]]. cbn [fst] in Hk. subst k.
    unfold ScanModel.file_exists, ahas. apply existsb_exists. exists (q, v). split; [exact Hin|apply path_eqb_refl].
  Qed.

  Lemma mark_analyse_ok p st : file_exists p = true -> phase_ok st -> phase_ok (analyse p (mark p st)).
  Proof.
    intros Hp [H1 H2 H3]. unfold ScanModel.analyse. rewrite Hp. unfold mark. cbn [ss_cached ss_plugin]. constructor; cbn [ss_cached ss_plugin].
    - intros q Hq. apply add_path_in in Hq as [->|Hq]; [exact Hp|now apply H1].
    - intros q Hq. apply add_path_in. apply add_path_in in Hq as [->|Hq]; [now left|right; now apply H2].
    - intros q Hq. apply add_path_in in Hq as [->|Hq]; [right; apply add_path_in; now left|].
      destruct (H3 q Hq) as [H|H]; [now left|right; apply add_path_in; now right].
  Qed.
  Lemma scan_plugin_dir_ok dir st : phase_ok st -> phase_ok (scan_plugin_dir fd dir st).
  Proof.
    unfold scan_plugin_dir. assert (G : forall l, (forall p, In p l -> file_exists p = true) -> forall st0, phase_ok st0 ->
      phase_ok (fold_left (fun st1 p => analyse p (mark p st1)) l st0)).
    { induction l as [|p l IH]; intros Hl st0 H0; [exact H0|]. cbn [fold_left]. apply IH; [intros q Hq; apply Hl; now right|].
      apply mark_analyse_ok; [apply Hl; now left|exact H0]. }
    intros H. apply G; [|exact H]. intros p Hp. unfold plugin_dir_files in Hp. apply filter_In in Hp as [Hp _]. now apply file_exists_in.
  Qed.
  Lemma resolve_entry_exists base m p : resolve_entry fd base m = Some p -> file_exists p = true.
  Proof.
    unfold resolve_entry. destruct (existsb _ _); [discriminate|].
    destruct (rev _) as [|last rinit]; [discriminate|].
    match goal with |- (if ?c then _ else _) = _ -> _ => destruct c eqn:E1 end; [intros H; now injection H as <-|].
    match goal with |- (if ?c then _ else _) = _ -> _ => destruct c eqn:E2 end; [|discriminate].
    intros H. injection H as <-. now apply andb_prop in E2 as [_ E2].
  Qed.
  Lemma load_entries_ok d st : phase_ok st -> phase_ok (load_entries fd sp dists pths d st).
  Proof.
    unfold load_entries. destruct (di_entry d) as [content|]; [|auto].
    generalize (parse_pytest11_entry_points content) as l. intros l. revert st. induction l as [|kv l IH]; intros st H; [exact H|].
    cbn [fold_left]. apply IH.
    destruct (match resolve_entry fd (sp_path sp) (snd kv) with Some p => Some p | None => _ end) as [[|n dir]|] eqn:E; try exact H.
    assert (Hex : file_exists (n :: dir) = true).
    { destruct (resolve_entry fd (sp_path sp) (snd kv)) as [p|] eqn:E1.
      - injection E as <-. eapply resolve_entry_exists; eauto.
      - apply first_some_some in E as [r [_ Hr]]. eapply resolve_entry_exists; eauto. }
    destruct (String.eqb n init_py); [now apply scan_plugin_dir_ok|].
    unfold scan_plugin_file. destruct (suffixb ".py" n); [now apply mark_analyse_ok|exact H].
  Qed.
  Lemma venv_scan_ok st : phase_ok st -> phase_ok (venv_scan fd sp dists pths st).
  Proof.
    unfold venv_scan. destruct sp as [spp|] eqn:Esp; [|auto]. rewrite <- Esp. intros H.
    assert (H1 : phase_ok (if dir_exists fd ("_pytest"%string :: spp) then scan_plugin_dir fd ("_pytest"%string :: spp) st else st))
      by (destruct (dir_exists fd _); [now apply scan_plugin_dir_ok|exact H]).
    revert H1. generalize (if dir_exists fd ("_pytest"%string :: spp) then scan_plugin_dir fd ("_pytest"%string :: spp) st else st) as st1.
    generalize dists at 2 as l. induction l as [|d l IH]; intros st1 H1; [exact H1|]. cbn [fold_left]. apply IH.
    destruct (tsuffix dist_info_sfx (di_name d) || tsuffix egg_info_sfx (di_name d)); [now apply load_entries_ok|exact H1].
  Qed.
  Lemma phase2_ok selected :
    (forall p, In p selected -> (match p with n :: _ => is_test_file_name n | [] => false end) = true) ->
    phase_ok (fold_left (fun st p => analyse p st) selected (mk_sst [] [])).
  Proof.
    intros Hsel.
    assert (G : forall l st0, (forall p, In p l -> (match p with n :: _ => is_test_file_name n | [] => false end) = true) ->
                              phase_ok st0 -> phase_ok (fold_left (fun st p => analyse p st) l st0)).
    { induction l as [|p l IH]; intros st0 Hl H0; [exact H0|]. cbn [fold_left]. apply IH; [intros q Hq; apply Hl; now right|].
      destruct H0 as [H1 H2 H3]. constructor.
      - intros q Hq. apply analyse_cached in Hq as [Hq|[-> Hq]]; [now apply H1|exact Hq].
      - intros q Hq. rewrite analyse_plugin in Hq. apply analyse_cached. left. now apply H2.
      - intros q Hq. rewrite analyse_plugin. apply analyse_cached in Hq as [Hq|[-> _]]; [now apply H3|]. left. apply Hl. now left. }
    apply G; [exact Hsel|]. constructor; intros q [].
  Qed.

  (** the whole scan, end to end: for the files phase 1 selected (test / conftest names), the
      scan terminates, analyses exactly what is reachable from the selected files and the
      entry-point plugin files, and marks exactly the plugin closure *)
  Theorem scan_end_to_end selected :
    (forall p, In p selected -> (match p with n :: _ => is_test_file_name n | [] => false end) = true) ->
    let st3 := venv_scan fd sp dists pths (fold_left (fun st p => analyse p st) selected (mk_sst [] [])) in
    exists st', import_scan_opt fd sp dists pths st3 = Some st'
                /\ (forall q, In q (ss_cached st') <-> reach fd sp dists pths (seed_files fd sp dists pths st3) q)
                /\ (forall q, In q (ss_plugin st') <-> plugin_reach (ss_plugin st3) q).
  Proof.
    intros Hsel st3.
    pose proof (venv_scan_ok _ (phase2_ok selected Hsel)) as [H1 H2 H3]. fold st3 in H1, H2, H3.
    destruct (import_scan_opt fd sp dists pths st3) as [st'|] eqn:E; [|exfalso; now apply (import_scan_converges st3)].
    exists st'. split; [reflexivity|].
    assert (Hseeds : forall q, In q (ss_cached st3) -> In q (seed_files fd sp dists pths st3)).
    { intros q Hq. unfold seed_files. apply filter_In. split; [exact Hq|].
      destruct (H3 q Hq) as [H|H]; [now rewrite H|]. apply mem_path_in in H. rewrite H. now rewrite !orb_true_r. }
    split; [now apply (import_scan_reaches_closure st3 st' H1 Hseeds H2 E)|now apply (import_scan_plugin_closure st3 st' H1 Hseeds H2 E)].
  Qed.

  (** ** classification: third-party by where the source lives *)
  Theorem third_party_table F :
    third_party fd ws sp dists pths F
    = (in_site_packages ws F
       || match List.find (fun r => starts_with F r) (editable_roots fd sp dists pths) with
          | Some r => negb (starts_with r ws || path_eqb r ws) && negb (starts_with ws r || path_eqb ws r)
          | None => false
          end).
  Proof. reflexivity. Qed.
  Lemma workspace_file_not_third F :
    starts_with F ws = true ->
    existsb (String.eqb site_packages) (firstn (length F - length ws) F) = false ->
    (forall r, In r (editable_roots fd sp dists pths) -> starts_with F r = true -> starts_with r ws = true \/ r = ws \/ starts_with ws r = true) ->
    third_party fd ws sp dists pths F = false.
  Proof.
    intros Hw Hs He. unfold third_party, in_site_packages. rewrite Hw, Hs. cbn [orb]. unfold editable_third.
    destruct (List.find _ _) as [r|] eqn:E; [|reflexivity]. apply find_some in E as [Hin Hr].
    destruct (He r Hin Hr) as [H|[->|H]].
    - now rewrite H.
    - now rewrite path_eqb_refl, orb_true_r.
    - rewrite H. cbn [orb negb]. now rewrite andb_false_r.
  Qed.
End ScanProofs.

(** ** entry_points.txt: exactly the [k = v] lines of the [pytest11] section *)
Definition is_header (l : text) : bool := first_is lbracket (trim l) && last_is rbracket (trim l).
Definition entry_of_line (l : text) : list (text * text) :=
  let t := trim l in
  if negb (match t with [] => true | _ => false end) && negb (first_is hash t)
  then match split_once eq_sign t with Some (a, b) => [(trim a, trim b)] | None => [] end
  else [].

Lemma entry_points_in_section body : forall tail,
  forallb (fun l => negb (is_header l)) body = true ->
  entry_points_loop (body ++ tail) true = flat_map entry_of_line body ++ entry_points_loop tail true.
Proof.
  induction body as [|l body IH]; intros tail H; [reflexivity|].
  cbn [forallb] in H. apply andb_prop in H as [Hl Hb]. apply negb_true_iff in Hl. unfold is_header in Hl.
  cbn [app entry_points_loop flat_map]. rewrite Hl. unfold entry_of_line. cbn [andb].
  destruct (negb (match trim l with [] => true | _ => false end) && negb (first_is hash (trim l))).
  - destruct (split_once eq_sign (trim l)) as [[a b]|]; cbn [app]; now rewrite IH.
  - cbn [app]. now apply IH.
Qed.
Lemma entry_points_outside_section body : forall tail,
  forallb (fun l => negb (is_header l)) body = true ->
  entry_points_loop (body ++ tail) false = entry_points_loop tail false.
Proof.
  induction body as [|l body IH]; intros tail H; [reflexivity|].
  cbn [forallb] in H. apply andb_prop in H as [Hl Hb]. apply negb_true_iff in Hl. unfold is_header in Hl.
  cbn [app entry_points_loop]. rewrite Hl. cbn [andb]. now apply IH.
Qed.
Lemma entry_points_header l tail b :
  is_header l = true -> entry_points_loop (l :: tail) b = entry_points_loop tail (text_eqb (trim l) pytest11_hdr).
Proof. unfold is_header. intros H. cbn [entry_points_loop]. now rewrite H. Qed.

(** ** the last assignment to pytest_plugins wins *)
Definition assigns_plugins (st : stmt) : bool :=
  match st with
  | SAssign targets _ _ => existsb (is_name "pytest_plugins") targets
  | SAnnAssign t (Some _) _ => is_name "pytest_plugins" t
  | _ => false
  end.
Theorem last_pytest_plugins_wins before targets v line after :
  existsb (is_name "pytest_plugins") targets = true ->
  forallb (fun st => negb (assigns_plugins st)) after = true ->
  pytest_plugins (before ++ SAssign targets v line :: after) = plugin_strings v.
Proof.
  intros Ht Ha. unfold pytest_plugins. rewrite fold_left_app. cbn [fold_left]. rewrite Ht.
  generalize (plugin_strings v) as acc. induction after as [|st after IH]; intros acc; [reflexivity|].
  cbn [forallb] in Ha. apply andb_prop in Ha as [H1 H2]. apply negb_true_iff in H1. cbn [fold_left].
  destruct st; cbn [assigns_plugins] in H1; try (now apply IH).
  - rewrite H1. now apply IH.
  - destruct value; [rewrite H1|]; now apply IH.
Qed.
