(** * Proofs for C10: a cleaning analysis (didOpen / didChange) of a file, applied to
    ANY state in which every definition is covered by the reverse index — every state
    reachable by any mix of scan-style (no clean-up) and notification-style analyses —
    leaves exactly the single-analysis slice for that file and touches no other file. *)
From PLS Require Import Model.History Proofs.Basics Proofs.Invariants Proofs.History.

Definition isF (F : path) (p : path) : bool := path_eqb p F.

Definition defs_of_file (s : index) (F : path) : list fdef := filter (fun d => isF F (d_file d)) (defs s).
Definition defs_elsewhere (s : index) (F : path) : list fdef := filter (fun d => negb (isF F (d_file d))) (defs s).
Definition usages_elsewhere (s : index) (F : path) : list usage := filter (fun u => negb (isF F (u_file u))) (usages s).
Definition usage_by_of_file (s : index) (F : path) : list usage := filter (fun u => isF F (u_file u)) (usage_by s).
Definition usage_by_elsewhere (s : index) (F : path) : list usage := filter (fun u => negb (isF F (u_file u))) (usage_by s).
Definition file_defs_elsewhere (s : index) (F : path) : list (path * string) :=
  filter (fun fn => negb (isF F (fst fn))) (file_defs s).

(** what one analysis of version [v] of [F] records for [F] *)
Record file_slice := mk_slice {
  sl_defs : list fdef;  sl_names : list string;  sl_usages : list usage;  sl_usage_by : list usage;
  sl_modnames : option (list string);  sl_cached : option cached }.

Definition slice_of (s : index) (F : path) : file_slice :=
  mk_slice (defs_of_file s F) (file_def_names s F) (usages_of_file s F) (usage_by_of_file s F)
           (alookup F (modnames s)) (alookup F (file_cache s)).

Definition single_analysis_slice (P : list path) (F : path) (v : facts) : file_slice :=
  mk_slice (map (attach_p P F) (item_defs (f_items v)))
           (names_in_order (map l_name (item_defs (f_items v))))
           (map (usage_of F) (item_uses (f_items v)))
           (map (usage_of F) (item_uses (f_items v)))
           (Some (f_modnames v)) (Some (cached_of v)).

Record elsewhere := mk_elsewhere {
  el_defs : list fdef;  el_file_defs : list (path * string);  el_usages : list usage;  el_usage_by : list usage }.
Definition elsewhere_of (s : index) (F : path) : elsewhere :=
  mk_elsewhere (defs_elsewhere s F) (file_defs_elsewhere s F) (usages_elsewhere s F) (usage_by_elsewhere s F).

(** ** list facts *)
Lemma filter_app' {A} (p : A -> bool) l1 l2 : filter p (l1 ++ l2) = filter p l1 ++ filter p l2.
Proof. induction l1 as [|x l1 IH]; cbn; [reflexivity|]. destruct (p x); cbn; now rewrite IH. Qed.

Lemma filter_filter_comm_sub {A} (p q : A -> bool) l :
  (forall x, p x = true -> q x = true) -> filter p (filter q l) = filter p l.
Proof.
  intros H. induction l as [|x l IH]; cbn; [reflexivity|].
  destruct (q x) eqn:Eq; cbn; [now rewrite IH|].
  destruct (p x) eqn:Ep; [|exact IH]. rewrite (H x Ep) in Eq. discriminate.
Qed.

Lemma filter_filter_disjoint {A} (p q : A -> bool) l :
  (forall x, p x = true -> q x = false) -> filter p (filter q l) = [].
Proof.
  intros H. apply filter_all_false. intros x Hx. apply filter_In in Hx as [_ Hq].
  destruct (p x) eqn:Ep; [|reflexivity]. rewrite (H x Ep) in Hq. discriminate.
Qed.

Lemma alookup_ainsert {V} F (v : V) m : alookup F (ainsert F v m) = Some v.
Proof.
  unfold alookup, ainsert, aremove.
  assert (H : forall l, find (fun kv : path * V => path_eqb (fst kv) F)
                          (filter (fun kv => negb (path_eqb (fst kv) F)) l ++ [(F, v)]) = Some (F, v)).
  { induction l as [|[k x] l IH]; cbn [filter fst].
    - cbn [app find fst]. now rewrite path_eqb_refl.
    - destruct (path_eqb k F) eqn:E; cbn [negb]; [exact IH|]. cbn [app find fst]. rewrite E. exact IH. }
  now rewrite H.
Qed.

(** ** the theorem *)
Section OneChange.
  Variables (F : path) (v : facts) (s : index).
  Hypothesis Hcov : covered s.
  Hypothesis Hok : f_ok v = true.

  Let s1 := set_file_cache s (ainsert F (cached_of v) (file_cache s)).
  Let s2 := cleanup_usages F s1.
  Let s3 := cleanup_defs F s2.
  Let s3v := set_version s3 (version s3 + 1).
  Let s4 := set_modnames s3v (ainsert F (f_modnames v) (modnames s3v)).

  Lemma analyze_unfold : analyze true F v s = fold_left (visit_item F) (f_items v) s4.
  Proof. unfold analyze. rewrite Hok. reflexivity. Qed.

  Lemma s2_covered : covered s2.
  Proof. intros d Hd. exact (Hcov d Hd). Qed.

  Lemma defs_s3_no_F : filter (fun d => isF F (d_file d)) (defs s3) = [].
  Proof.
    apply filter_all_false. intros d Hd. unfold isF.
    apply path_eqb_neq. exact (cleanup_defs_complete F s2 s2_covered d Hd).
  Qed.

  Lemma defs_s3_elsewhere : filter (fun d => negb (isF F (d_file d))) (defs s3) = defs_elsewhere s F.
  Proof.
    unfold s3, cleanup_defs. cbn [defs set_defs set_file_defs].
    change (defs s2) with (defs s). unfold defs_elsewhere.
    apply filter_filter_comm_sub. intros d Hd. unfold isF in Hd.
    apply negb_true_iff in Hd. now rewrite Hd, andb_false_r.
  Qed.

  Lemma new_defs_all_F P :
    filter (fun d => isF F (d_file d)) (map (attach_p P F) (item_defs (f_items v)))
    = map (attach_p P F) (item_defs (f_items v)).
  Proof. apply filter_all_true. intros d Hd. apply in_map_iff in Hd as [l [<- _]]. apply path_eqb_refl. Qed.
  Lemma new_defs_none_elsewhere P :
    filter (fun d => negb (isF F (d_file d))) (map (attach_p P F) (item_defs (f_items v))) = [].
  Proof.
    apply filter_all_false. intros d Hd. apply in_map_iff in Hd as [l [<- _]].
    unfold isF. cbn [attach_p d_file]. now rewrite path_eqb_refl.
  Qed.
  Lemma new_usages_all_F :
    filter (fun u => isF F (u_file u)) (map (usage_of F) (item_uses (f_items v)))
    = map (usage_of F) (item_uses (f_items v)).
  Proof. apply filter_all_true. intros u Hu. apply in_map_iff in Hu as [l [<- _]]. apply path_eqb_refl. Qed.
  Lemma new_usages_none_elsewhere :
    filter (fun u => negb (isF F (u_file u))) (map (usage_of F) (item_uses (f_items v))) = [].
  Proof.
    apply filter_all_false. intros u Hu. apply in_map_iff in Hu as [l [<- _]].
    unfold isF. cbn [usage_of u_file]. now rewrite path_eqb_refl.
  Qed.

  Lemma file_defs_s4 :
    file_defs s4 = file_defs_elsewhere s F ++ map (pair F) [].
  Proof. cbn [map]. rewrite app_nil_r. reflexivity. Qed.

  Lemma file_defs_after :
    file_defs (analyze true F v s)
    = file_defs_elsewhere s F ++ map (pair F) (names_in_order (map l_name (item_defs (f_items v)))).
  Proof.
    rewrite analyze_unfold. unfold names_in_order.
    apply (fold_visit_file_defs F (f_items v) s4 (file_defs_elsewhere s F) []); [|exact file_defs_s4].
    intros x Hx. unfold file_defs_elsewhere in Hx. apply filter_In in Hx as [_ Hx].
    unfold isF in Hx. apply negb_true_iff in Hx. now apply path_eqb_neq.
  Qed.

  Theorem one_change_restores_slice :
    slice_of (analyze true F v s) F = single_analysis_slice (plugin_files s) F v.
  Proof.
    unfold slice_of, single_analysis_slice. f_equal.
    - unfold defs_of_file. rewrite analyze_unfold, fold_visit_defs, filter_app'.
      change (plugin_files s4) with (plugin_files s). change (defs s4) with (defs s3).
      rewrite defs_s3_no_F, new_defs_all_F. reflexivity.
    - unfold file_def_names. rewrite file_defs_after, filter_app', map_app.
      assert (E1 : filter (fun fn : path * string => path_eqb (fst fn) F) (file_defs_elsewhere s F) = []).
      { unfold file_defs_elsewhere. apply filter_filter_disjoint. intros x Hx. unfold isF. now rewrite Hx. }
      rewrite E1. cbn [map app].
      rewrite filter_all_true; [|intros x Hx; apply in_map_iff in Hx as [n [<- _]]; apply path_eqb_refl].
      rewrite map_map. cbn [snd]. apply map_id.
    - unfold usages_of_file. rewrite analyze_unfold, fold_visit_usages, filter_app'.
      change (usages s4) with (filter (fun u => negb (path_eqb (u_file u) F)) (usages s)).
      rewrite filter_filter_disjoint; [|intros x Hx; now rewrite Hx].
      cbn [app]. exact new_usages_all_F.
    - unfold usage_by_of_file. rewrite analyze_unfold, fold_visit_usage_by, filter_app'.
      change (usage_by s4) with (filter (fun u => negb (path_eqb (u_file u) F)) (usage_by s)).
      rewrite filter_filter_disjoint; [|intros x Hx; unfold isF in Hx; now rewrite Hx].
      cbn [app]. exact new_usages_all_F.
    - rewrite analyze_unfold, fold_visit_modnames. unfold s4. cbn [modnames set_modnames]. apply alookup_ainsert.
    - rewrite analyze_unfold, fold_visit_cache. change (file_cache s4) with (file_cache s1).
      unfold s1. cbn [file_cache set_file_cache]. apply alookup_ainsert.
  Qed.

  Theorem one_change_touches_nothing_else :
    elsewhere_of (analyze true F v s) F = elsewhere_of s F.
  Proof.
    unfold elsewhere_of. f_equal.
    - unfold defs_elsewhere at 1. rewrite analyze_unfold, fold_visit_defs, filter_app'.
      rewrite new_defs_none_elsewhere, app_nil_r. change (defs s4) with (defs s3). exact defs_s3_elsewhere.
    - unfold file_defs_elsewhere at 1. rewrite file_defs_after, filter_app'.
      rewrite (filter_all_false _ (map (pair F) _)).
      2:{ intros x Hx. apply in_map_iff in Hx as [n [<- _]]. unfold isF. cbn [fst]. now rewrite path_eqb_refl. }
      rewrite app_nil_r. unfold file_defs_elsewhere. apply filter_filter_same.
    - unfold usages_elsewhere at 1. rewrite analyze_unfold, fold_visit_usages, filter_app'.
      rewrite new_usages_none_elsewhere, app_nil_r.
      change (usages s4) with (filter (fun u => negb (path_eqb (u_file u) F)) (usages s)).
      unfold usages_elsewhere, isF. apply filter_filter_same.
    - unfold usage_by_elsewhere at 1. rewrite analyze_unfold, fold_visit_usage_by, filter_app'.
      rewrite new_usages_none_elsewhere, app_nil_r.
      change (usage_by s4) with (filter (fun u => negb (path_eqb (u_file u) F)) (usage_by s)).
      unfold usage_by_elsewhere, isF. apply filter_filter_same.
  Qed.
End OneChange.

(** an unparsable buffer replaces only the cached text *)
Lemma invalid_change_keeps_slices F v s : f_ok v = false ->
  elsewhere_of (analyze true F v s) F = elsewhere_of s F /\
  defs_of_file (analyze true F v s) F = defs_of_file s F /\
  alookup F (file_cache (analyze true F v s)) = Some (cached_of v).
Proof.
  intros H. unfold analyze. rewrite H. cbn [negb]. repeat split. cbn [file_cache set_version set_file_cache].
  apply alookup_ainsert.
Qed.
