(** * Proofs/WarmCold: in EVERY state reached by analyses, closes and queries — in any
    interleaving — every answer equals the answer computed with all memos cleared.
    The invariant: each CURRENT entry of the imported-fixtures memo holds the closure of
    the module it was stored for ([memo_ok], Proofs/ImportClosure.v), and each current
    entry of the available-fixtures memo denotes, name by name, what the cold computation
    denotes ([av_ok]).  Analyses and closes leave no current entry; queries store only
    what the invariant allows. *)
From PLS Require Import Check.C07 Proofs.Basics Proofs.CacheValid Proofs.Termination Proofs.ImportClosure Proofs.Available Proofs.Agree Proofs.SortUnique.
From Coq Require Import Lia Relations Sorting.Sorted Permutation.

Section Warm.
  Variable dk : disk.
  Variable roots : list path.

  Notation Cl := (Cl dk roots).
  Notation memo_ok := (memo_ok dk roots).

  (** ** the closure does not read the memos *)
  Definition same_base (s s' : index) : Prop := cold s' = cold s.

  Lemma star_cold s X Y : star dk roots (cold s) X Y <-> star dk roots s X Y.
  Proof.
    unfold star, node_edges. change (content dk (cold s) X) with (content dk s X).
    split; intros [e [He [Hk Hr]]]; exists e; (split; [exact He|split; [exact Hk|]]).
    - now rewrite resolve_edge_cold in Hr.
    - now rewrite resolve_edge_cold.
  Qed.
  Lemma gives_cold s X n : gives dk roots (cold s) X n <-> gives dk roots s X n.
  Proof.
    unfold gives, node_edges, edge_names. change (content dk (cold s) X) with (content dk s X).
    change (file_def_names (cold s)) with (file_def_names s). change (has_def (cold s)) with (has_def s).
    split; intros [e [tgt [He [Hr Hn]]]]; exists e, tgt; (split; [exact He|split; [|exact Hn]]).
    - now rewrite resolve_edge_cold in Hr.
    - now rewrite resolve_edge_cold.
  Qed.
  Lemma rt_mono {A} (R R' : A -> A -> Prop) : (forall x y, R x y -> R' x y) ->
    forall x y, clos_refl_trans A R x y -> clos_refl_trans A R' x y.
  Proof.
    intros HR x y H. induction H as [x y H|x|x y z _ IH1 _ IH2];
      [apply rt_step; now apply HR|apply rt_refl|eapply rt_trans; eauto].
  Qed.
  Lemma reach_cold s A X : reach dk roots (cold s) A X <-> reach dk roots s A X.
  Proof.
    unfold reach. split; apply rt_mono; intros x y H; now apply star_cold.
  Qed.
  Lemma Cl_cold s A n : Cl (cold s) A n <-> Cl s A n.
  Proof.
    unfold ImportClosure.Cl. split; intros [X [R G]]; exists X; (split; [now apply reach_cold|now apply gives_cold]).
  Qed.
  Lemma Cl_base s s' A n : same_base s s' -> (Cl s' A n <-> Cl s A n).
  Proof. intros H. rewrite <- (Cl_cold s'), <- (Cl_cold s). unfold same_base in H. now rewrite H. Qed.

  (** ** consequences of [memo_ok] for one state *)
  Lemma memo_ok_cold s : memo_ok (cold s).
  Proof. intros file c names _ H. discriminate. Qed.
  Lemma memo_ok_no_current s : no_current s -> memo_ok s.
  Proof. intros Hn file c names _ H. rewrite (imp_hit_none s file c Hn) in H. discriminate. Qed.

  Lemma is_imported_warm s n f : memo_ok s -> is_imported dk roots s n f = is_imported dk roots (cold s) n f.
  Proof.
    intros M. apply Bool.eq_iff_eq_true. unfold is_imported. rewrite !mem_str_in.
    rewrite (imported_is_closure dk roots s M), (imported_is_closure dk roots (cold s) (memo_ok_cold s)).
    symmetry. apply Cl_cold.
  Qed.

  Lemma closest_with_warm s flt F n : memo_ok s ->
    closest_with dk roots s flt F n = closest_with dk roots (cold s) flt F n.
  Proof.
    intros M. unfold closest_with. change (defs_named (cold s) n) with (defs_named s n).
    destruct (defs_named s n) as [|d0 l0] eqn:Edn; [reflexivity|]. rewrite <- Edn.
    destruct (last_binding flt (defs_named s n) F); [reflexivity|].
    destruct F as [|f dir]; [reflexivity|].
    assert (E : forall dirs, first_some (conftest_step dk roots s flt (defs_named s n) n) dirs
                             = first_some (conftest_step dk roots (cold s) flt (defs_named s n) n) dirs).
    { induction dirs as [|d dirs IHd]; [cbn [first_some]; exact eq_refl|]. cbn [first_some].
      assert (Es : conftest_step dk roots s flt (defs_named s n) n d = conftest_step dk roots (cold s) flt (defs_named s n) n d).
      { unfold conftest_step. change (in_cache (cold s) (conftest_py :: d)) with (in_cache s (conftest_py :: d)).
        now rewrite (is_imported_warm s n _ M). }
      rewrite Es, IHd. reflexivity. }
    rewrite E. reflexivity.
  Qed.

  (** the per-file view, name by name *)
  Lemma cascade_warm s f dir n : memo_ok s -> cascade dk roots s f dir n = cascade dk roots (cold s) f dir n.
  Proof.
    intros M. unfold cascade.
    change (pick_last (cold s)) with (pick_last s). change (pick_first (cold s)) with (pick_first s).
    destruct (pick_last s (f :: dir) n); [reflexivity|].
    assert (E : first_some (walk_step dk roots s n) (ancestors dir) = first_some (walk_step dk roots (cold s) n) (ancestors dir)).
    { apply first_some_ext. intros x _. unfold walk_step. cbv zeta.
      change (pick_last (cold s)) with (pick_last s). change (pick_head (cold s)) with (pick_head s).
      change (in_cache (cold s) (conftest_py :: x)) with (in_cache s (conftest_py :: x)).
      now rewrite (is_imported_warm s n _ M). }
    rewrite E. reflexivity.
  Qed.

  Lemma available_cold_lookup_warm s F n : memo_ok s ->
    lookup_av n (available_cold dk roots s F) = lookup_av n (available_cold dk roots (cold s) F).
  Proof.
    intros M. destruct F as [|f dir]; [reflexivity|].
    rewrite !available_lookup_cascade. now apply cascade_warm.
  Qed.

  (** the per-file view is a list sorted by name with one entry per name: two such lists that
      denote the same definition for every name are the same list *)
  Definition name_leb (a b : fdef) : bool := String.leb (d_name a) (d_name b).
  Notation sorted := (StronglySorted (fun a b => name_leb a b = true)).

  Lemma available_cold_sorted s F : sorted (available_cold dk roots s F).
  Proof.
    unfold available_cold. apply isort_sorted.
    - intros a b. apply String.leb_total.
    - intros a b c. apply string_leb_trans.
  Qed.

  Lemma lookup_some n l d : lookup_av n l = Some d -> In d l /\ d_name d = n.
  Proof. unfold lookup_av. intros H. apply find_some in H as [H E]. split; [exact H|now apply String.eqb_eq]. Qed.
  Lemma nd_lookup_in l d : ND l -> In d l -> lookup_av (d_name d) l = Some d.
  Proof.
    unfold ND, lookup_av. induction l as [|x l IH]; intros Hnd Hin; [destruct Hin|]. cbn [find map] in *.
    inversion Hnd as [|? ? Hx Hnd']; subst. destruct Hin as [->|Hin]; [now rewrite String.eqb_refl|].
    destruct (String.eqb (d_name x) (d_name d)) eqn:E; [|now apply IH].
    exfalso. apply Hx. apply String.eqb_eq in E. rewrite E. now apply in_map.
  Qed.

  Lemma views_equal l1 l2 : ND l1 -> ND l2 -> sorted l1 -> sorted l2 ->
    (forall n, lookup_av n l1 = lookup_av n l2) -> l1 = l2.
  Proof.
    intros N1 N2 S1 S2 L. apply (sorted_perm_unique fdef name_leb); [|exact S1|exact S2|].
    - intros a b Ha Hb H1 H2. pose proof (String.leb_antisym _ _ H1 H2) as E.
      pose proof (nd_lookup_in l1 a N1 Ha) as La. pose proof (nd_lookup_in l1 b N1 Hb) as Lb.
      rewrite E in La. congruence.
    - apply NoDup_Permutation; [eapply NoDup_map_inv; exact N1|eapply NoDup_map_inv; exact N2|].
      intros d. split; intros H.
      + pose proof (nd_lookup_in l1 d N1 H) as X. rewrite L in X. now apply lookup_some in X.
      + pose proof (nd_lookup_in l2 d N2 H) as X. rewrite <- L in X. now apply lookup_some in X.
  Qed.

  Theorem available_cold_warm_eq s F : memo_ok s ->
    available_cold dk roots s F = available_cold dk roots (cold s) F.
  Proof.
    intros M. apply views_equal; [apply available_names_nodup|apply available_names_nodup
                                  |apply available_cold_sorted|apply available_cold_sorted|].
    intros n. now apply available_cold_lookup_warm.
  Qed.

  Definition av_ok (s : index) : Prop :=
    forall F l, av_hit s F = Some l -> l = available_cold dk roots (cold s) F.

  Lemma av_ok_no_current s : no_current s -> av_ok s.
  Proof. intros Hn F l H. rewrite (av_hit_none s F Hn) in H. discriminate. Qed.

  Lemma available_warm s F : memo_ok s -> av_ok s ->
    available dk roots s F = available_cold dk roots (cold s) F.
  Proof.
    intros M A. unfold available. destruct (av_hit s F) as [l|] eqn:E; [now apply (A F l E)|now apply available_cold_warm_eq].
  Qed.

  (** ** association lists *)
  Lemma alookup_ainsert {V} k k' (v : V) m :
    alookup k (ainsert k' v m) = if path_eqb k' k then Some v else alookup k m.
  Proof.
    unfold ainsert, alookup, aremove.
    induction m as [|[a b] m IH]; cbn [filter app find fst snd].
    - destruct (path_eqb k' k); reflexivity.
    - destruct (path_eqb a k') eqn:Eak; cbn [negb].
      + apply path_eqb_eq in Eak. subst a. rewrite IH. destruct (path_eqb k' k); reflexivity.
      + cbn [app find fst]. destruct (path_eqb a k) eqn:Ea.
        * apply path_eqb_eq in Ea. subst a. rewrite path_eqb_sym in Eak. rewrite Eak. reflexivity.
        * exact IH.
  Qed.

  (** ** queries keep the invariant *)
  Lemma imp_store_base s x : same_base s (imp_store dk roots s x).
  Proof. unfold same_base, imp_store. destruct (content dk s x) as [c|]; [|reflexivity]. destruct (imp_hit s x c); reflexivity. Qed.
  Lemma imp_store_av s x : av_cache (imp_store dk roots s x) = av_cache s /\ version (imp_store dk roots s x) = version s.
  Proof. unfold imp_store. destruct (content dk s x) as [c|]; [|split; reflexivity]. destruct (imp_hit s x c); split; reflexivity. Qed.

  Lemma imp_store_memo_ok s x : memo_ok s -> memo_ok (imp_store dk roots s x).
  Proof.
    intros M. pose proof (imp_store_base s x) as B. unfold imp_store in *.
    destruct (content dk s x) as [c|] eqn:Ec; [|exact M].
    destruct (imp_hit s x c) eqn:Eh; [exact M|].
    intros file c' names Hc Hh n.
    rewrite (Cl_base s _ file n B).
    change (content dk (set_imp_cache s (ainsert x (c_text c, version s, imported dk roots s x) (imp_cache s))) file)
      with (content dk s file) in Hc.
    unfold imp_hit in Hh. cbn [imp_cache set_imp_cache version] in Hh. rewrite alookup_ainsert in Hh.
    destruct (path_eqb x file) eqn:Ex.
    - apply path_eqb_eq in Ex. subst file.
      destruct ((c_text c =? c_text c') && (version s =? version s)); [|discriminate].
      injection Hh as <-. apply (imported_is_closure dk roots s M).
    - apply (M file c' names Hc). unfold imp_hit. exact Hh.
  Qed.

  Lemma imp_store_av_ok s x : av_ok s -> av_ok (imp_store dk roots s x).
  Proof.
    intros A F l H. destruct (imp_store_av s x) as [E1 E2]. pose proof (imp_store_base s x) as B.
    unfold same_base in B. rewrite B. apply (A F l). unfold av_hit in *. now rewrite E1, E2 in H.
  Qed.

  Record warm_ok (s : index) : Prop := { w_memo : memo_ok s; w_av : av_ok s; w_bounded : bounded s }.

  Lemma imp_store_ok s x : warm_ok s -> warm_ok (imp_store dk roots s x).
  Proof. intros [M A B]. split; [now apply imp_store_memo_ok|now apply imp_store_av_ok|now apply imp_store_bounded]. Qed.
  Lemma touch_ok files : forall s, warm_ok s -> warm_ok (touch dk roots s files).
  Proof. unfold touch. induction files as [|x files IH]; intros s H; cbn [fold_left]; [exact H|]. apply IH, imp_store_ok, H. Qed.
  Lemma touch_base files : forall s, same_base s (touch dk roots s files).
  Proof.
    unfold touch, same_base. induction files as [|x files IH]; intros s; cbn [fold_left]; [reflexivity|].
    rewrite IH. apply imp_store_base.
  Qed.
  Lemma touch_av files : forall s, av_cache (touch dk roots s files) = av_cache s.
  Proof.
    unfold touch. induction files as [|x files IH]; intros s; cbn [fold_left]; [reflexivity|].
    rewrite IH. apply imp_store_av.
  Qed.

  Lemma post_closest_with_ok s flt F n : warm_ok s -> warm_ok (post_closest_with dk roots s flt F n).
  Proof. intros H. unfold post_closest_with. now apply touch_ok. Qed.
  Lemma post_resolve_usage_ok s F line n : warm_ok s -> warm_ok (post_resolve_usage dk roots s F line n).
  Proof.
    intros H. unfold post_resolve_usage. destruct (def_at_line s F line) as [cd|]; [|now apply post_closest_with_ok].
    destruct (String.eqb (d_name cd) n); now apply post_closest_with_ok.
  Qed.
  Lemma post_goto_ok s F l c : warm_ok s -> warm_ok (post_goto dk roots s F l c).
  Proof.
    intros H. unfold post_goto. destruct (line_text dk s F l); [|exact H]. destruct (word_at s0 c); [|exact H].
    destruct (find _ (usages_of_file s F)); [|exact H]. now apply post_resolve_usage_ok.
  Qed.
  Lemma post_refs_ok s d : warm_ok s -> warm_ok (post_refs dk roots s d).
  Proof.
    intros H. unfold post_refs. generalize (usage_by_name s (d_name d)). intros us. revert s H.
    induction us as [|u us IH]; intros s H; cbn [fold_left]; [exact H|]. apply IH. now apply post_resolve_usage_ok.
  Qed.

  Lemma post_available_ok s F : warm_ok s -> warm_ok (post_available dk roots s F).
  Proof.
    intros H. pose proof (post_available_bounded dk roots s F (w_bounded s H)) as PB.
    unfold post_available in *. destruct (av_hit s F) as [l0|] eqn:Eh; [exact H|].
    set (s1 := match F with [] => s | _ :: dir => touch dk roots s (filter (in_cache s) (map (fun d => conftest_py :: d) (ancestors dir))) end) in *.
    assert (H1 : warm_ok s1) by (unfold s1; destruct F; [exact H|now apply touch_ok]).
    assert (B1 : same_base s s1) by (unfold s1; destruct F; [reflexivity|apply touch_base]).
    assert (V1 : version s1 = version s) by (unfold s1; destruct F; [reflexivity|apply touch_version]).
    assert (A1 : av_cache s1 = av_cache s) by (unfold s1; destruct F; [reflexivity|apply touch_av]).
    set (s2 := set_av_cache s1 (ainsert F (version s, available_cold dk roots s F) (av_cache s1))) in *.
    assert (B2 : same_base s s2) by (unfold same_base in *; rewrite <- B1; reflexivity).
    split; [| |exact PB].
    - (* the imported-fixtures memo is that of s1 *)
      intros file c names Hc Hh n. rewrite (Cl_base s s2 file n B2), <- (Cl_base s s1 file n B1).
      apply (w_memo s1 H1 file c names); [exact Hc|exact Hh].
    - intros F' l Hh. unfold same_base in B2. rewrite B2.
      unfold av_hit, s2 in Hh. cbn [av_cache set_av_cache version] in Hh. rewrite alookup_ainsert in Hh.
      destruct (path_eqb F F') eqn:EF.
      + apply path_eqb_eq in EF. subst F'. rewrite V1, N.eqb_refl in Hh. injection Hh as <-.
        apply available_cold_warm_eq. exact (w_memo s H).
      + apply (w_av s H F' l). unfold av_hit. rewrite <- A1, <- V1. exact Hh.
  Qed.

  Lemma post_aq7_ok s q : warm_ok s -> warm_ok (post_aq7 dk roots s q).
  Proof.
    intros H. destruct q; cbn [post_aq7]; [now apply post_goto_ok|now apply post_closest_with_ok|now apply post_available_ok
                                            |exact H|now apply imp_store_ok|now apply post_refs_ok].
  Qed.

  (** ** every state reached by analyses, closes and queries, in any order *)
  Inductive reached : index -> Prop :=
  | r_init : reached empty_index
  | r_analyze c F v s : reached s -> reached (analyze c F v s)
  | r_close F s : reached s -> reached (close F s)
  | r_query q s : reached s -> reached (post_aq7 dk roots s q).

  Lemma warm_ok_fresh s : bounded s -> no_current s -> warm_ok s.
  Proof. intros B N. split; [now apply memo_ok_no_current|now apply av_ok_no_current|exact B]. Qed.

  Theorem reached_ok s : reached s -> warm_ok s.
  Proof.
    induction 1 as [|c F v s _ IH|F s _ IH|q s _ IH].
    - apply warm_ok_fresh; split; intros; contradiction.
    - destruct (stale_after_analyze c F v s (w_bounded s IH)). now apply warm_ok_fresh.
    - destruct (stale_after_close F s (w_bounded s IH)). now apply warm_ok_fresh.
    - now apply post_aq7_ok.
  Qed.

  Theorem warm_equals_cold_everywhere s : reached s ->
    (forall flt F n, closest_with dk roots s flt F n = closest_with dk roots (cold s) flt F n) /\
    (forall n file, is_imported dk roots s n file = is_imported dk roots (cold s) n file) /\
    (forall F, available dk roots s F = available_cold dk roots (cold s) F).
  Proof.
    intros R. destruct (reached_ok s R) as [M A _].
    split; [intros; now apply closest_with_warm|]. split; [intros; now apply is_imported_warm|].
    intros; now apply available_warm.
  Qed.
End Warm.
