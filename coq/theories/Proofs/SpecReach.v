(** * The specification's import-source walk ([sources] of Spec/Pytest.v) is not limited by
    its fuel: with more fuel than unvisited known files it computes the same result as with
    any larger fuel — the fuelled function is the closure computation it is meant to be. *)
From Coq Require Import Arith Lia.
From PLS Require Import Spec.Pytest Proofs.Basics Proofs.Termination.
Local Open Scope nat_scope.

Section SpecReach.
  Variable dk : disk.
  Variable roots : list path.
  Variable s : index.
  Variable n : string.

  Notation sources := (sources dk roots s).
  Notation unseen := (unseen dk s).
  Notation subset := Termination.subset.

  Definition src_step (fuel : nat) (m : path) (acc : list path * list path) (e : edge) : list path * list path :=
    let '(found, vis) := acc in
    match resolve_edge dk s roots m e with
    | None => (found, vis)
    | Some tgt =>
        let carries := match e_kind e with Star => true | Names ns => mem_str n ns end in
        if carries then
          let own := match defs_in s tgt n with [] => [] | _ => [tgt] end in
          let '(sub, vis') := sources fuel n tgt vis in
          (found ++ own ++ sub, vis')
        else (found, vis)
    end.

  Lemma sources_unfold fuel m vis :
    sources (S fuel) n m vis =
    if mem_path m vis then ([], vis) else
    match content dk s m with
    | None => ([], m :: vis)
    | Some c => if negb (c_ok c) then ([], m :: vis)
                else fold_left (src_step fuel m) (c_edges c) ([], m :: vis)
    end.
  Proof. reflexivity. Qed.

  Theorem sources_fuel_irrelevant : forall fuel m vis,
    unseen vis < fuel ->
    sources fuel n m vis = sources (S fuel) n m vis /\ subset vis (snd (sources fuel n m vis)).
  Proof.
    induction fuel as [|fuel IH]; intros m vis Hf; [lia|].
    rewrite (sources_unfold (S fuel)), (sources_unfold fuel).
    destruct (mem_path m vis) eqn:Ev; [split; [reflexivity|apply subset_refl]|].
    destruct (content dk s m) as [c|] eqn:Ec; [|split; [reflexivity|apply subset_cons]].
    destruct (negb (c_ok c)); [split; [reflexivity|apply subset_cons]|].
    pose proof (unseen_strict dk s m vis (content_known dk s m c Ec) Ev) as Hs.
    assert (F : forall edges af av,
               subset (m :: vis) av ->
               fold_left (src_step fuel m) edges (af, av) = fold_left (src_step (S fuel) m) edges (af, av)
               /\ subset (m :: vis) (snd (fold_left (src_step fuel m) edges (af, av)))).
    { induction edges as [|e edges IHe]; intros af av Hsub; cbn [fold_left]; [split; [reflexivity|exact Hsub]|].
      unfold src_step at 2 4 6.
      destruct (resolve_edge dk s roots m e) as [tgt|]; [|now apply IHe].
      destruct (match e_kind e with Star => true | Names ns => mem_str n ns end); [|now apply IHe].
      assert (Hav : unseen av < fuel) by (pose proof (unseen_mono dk s (m :: vis) av Hsub); lia).
      destruct (IH tgt av Hav) as [E Sb]. rewrite <- E.
      destruct (sources fuel n tgt av) as [sub v'] eqn:Es. cbn [snd] in Sb.
      apply IHe. eapply subset_trans; eauto. }
    destruct (F (c_edges c) [] (m :: vis) (subset_refl _)) as [E Sb].
    split; [exact E|]. eapply subset_trans; [apply subset_cons|exact Sb].
  Qed.

  Corollary sources_enough_fuel m k :
    sources (enough_fuel dk s + k) n m [] = sources (enough_fuel dk s) n m [].
  Proof.
    induction k as [|k IH]; [now rewrite Nat.add_0_r|]. rewrite Nat.add_succ_r.
    destruct (sources_fuel_irrelevant (enough_fuel dk s + k) m []) as [E _]; [|now rewrite <- E].
    pose proof (unseen_le_known dk s []). unfold enough_fuel, known in *. rewrite app_length, !map_length in H. lia.
  Qed.
End SpecReach.
