(** * Where a relative import lands.  Paths are lists of components, innermost first.
    A relative import of [level] dots written in a file of directory [base] names a file
    exactly [level - 1] directories above [base] - below that directory by the dotted module
    path, as [mod.py] or as the package's [__init__.py] - and nothing anywhere else: not one
    directory too deep, not one too high, whatever the disk holds there.  (Seeded change S91
    counted the dots in pairs; its model [up_pairs] is refuted below.) *)
From Coq Require Import Arith Lia.
From PLS Require Import Model.Resolve Proofs.Basics.
Local Open Scope nat_scope.

Lemma up_spec : forall n d d', up n d = Some d' <-> (n <= length d /\ d' = skipn n d).
Proof.
  induction n as [|n IH]; intros d d'; cbn [up skipn].
  - split; [intros H; injection H as <-; split; [lia|reflexivity]|intros [_ ->]; reflexivity].
  - destruct d as [|x d]; cbn [length skipn].
    + split; [discriminate|intros [H _]; lia].
    + rewrite IH. split; intros [H1 H2]; (split; [lia|exact H2]).
Qed.

(** the file a dotted module path names below a directory: one of two spellings *)
Definition module_py (parts : list string) (base : path) : path :=
  ((last parts EmptyString ++ ".py")%string) :: rev (removelast parts) ++ base.
Definition package_init (parts : list string) (base : path) : path :=
  init_py :: rev parts ++ base.

Lemma find_module_file_location dk s : forall parts base p,
  find_module_file dk s parts base = Some p ->
  parts <> [] /\ (p = module_py parts base \/ p = package_init parts base).
Proof.
  induction parts as [|part rest IH]; intros base p H; [discriminate|].
  split; [discriminate|].
  destruct rest as [|r2 rest'].
  - cbn [find_module_file] in H.
    destruct (disk_file dk _ || in_cache s _).
    + injection H as <-. left. reflexivity.
    + destruct (disk_file dk _ || in_cache s _); [|discriminate].
      injection H as <-. right. reflexivity.
  - change (find_module_file dk s (part :: r2 :: rest') base)
      with (let d := part :: base in if disk_dir dk d then find_module_file dk s (r2 :: rest') d else None) in H.
    cbn zeta in H. destruct (disk_dir dk (part :: base)); [|discriminate].
    apply IH in H as [_ [-> | ->]].
    + left. unfold module_py.
      change (last (part :: r2 :: rest') EmptyString) with (last (r2 :: rest') EmptyString).
      change (removelast (part :: r2 :: rest')) with (part :: removelast (r2 :: rest')).
      cbn [rev]. now rewrite <- !app_assoc.
    + right. unfold package_init. cbn [rev]. now rewrite <- !app_assoc.
Qed.

Theorem resolve_relative_location : forall dk s level mods base p,
  (0 < level)%N ->
  resolve_relative dk s level mods base = Some p ->
  let k := N.to_nat (level - 1) in
  k <= length base /\
  match mods with
  | [] => p = init_py :: skipn k base
  | _ => p = module_py mods (skipn k base) \/ p = package_init mods (skipn k base)
  end.
Proof.
  intros dk s level mods base p Hl H k. unfold resolve_relative in H. fold k in H.
  destruct (up k base) as [d|] eqn:E; [|discriminate].
  apply up_spec in E as [Hk ->]. split; [exact Hk|].
  destruct mods as [|m ms].
  - destruct (disk_file dk _); [|discriminate]. now injection H as <-.
  - now apply find_module_file_location in H as [_ H].
Qed.

(** in particular the file's directory chain ends in [skipn (level - 1) base]: what lies
    between the importing directory and that ancestor plays no part *)
Corollary resolve_relative_is_above : forall dk s level mods base p,
  (0 < level)%N -> resolve_relative dk s level mods base = Some p ->
  exists below, p = below ++ skipn (N.to_nat (level - 1)) base.
Proof.
  intros dk s level mods base p Hl H.
  destruct (resolve_relative_location _ _ _ _ _ _ Hl H) as [_ L].
  destruct mods as [|m ms].
  - exists [init_py]. exact L.
  - destruct L as [-> | ->].
    + exists (((last (m :: ms) EmptyString ++ ".py")%string) :: rev (removelast (m :: ms))). reflexivity.
    + exists (init_py :: rev (m :: ms)). reflexivity.
Qed.

(** ** seeded change S91: dots counted in pairs *)
Definition resolve_relative_pairs (dk : disk) (s : index) (level : N) (mods : list string) (base : path) : option path :=
  match up (N.to_nat (level / 2)) base with
  | None => None
  | Some d =>
      match mods with
      | [] => let i := init_py :: d in if disk_file dk i then Some i else None
      | _ => find_module_file dk s mods d
      end
  end.

Definition dk_s91 : disk :=
  [(["shared.py"; "root"], mk_cached 0%N true [] []);
   (["shared.py"; "a"; "root"], mk_cached 0%N true [] [])].
Lemma resolve_relative_pairs_refuted :
  (* from root/a/b/conftest.py, [from ...shared import *] *)
  resolve_relative dk_s91 empty_index 3%N ["shared"] ["b"; "a"; "root"] = Some ["shared.py"; "root"] /\
  resolve_relative_pairs dk_s91 empty_index 3%N ["shared"] ["b"; "a"; "root"] = Some ["shared.py"; "a"; "root"] /\
  (* one and two dots agree *)
  resolve_relative_pairs dk_s91 empty_index 2%N ["shared"] ["b"; "a"; "root"] =
  resolve_relative dk_s91 empty_index 2%N ["shared"] ["b"; "a"; "root"].
Proof. vm_compute. repeat split. Qed.
