(** * The hypothesis [imports_complete] of the C01 / C02 theorems is a theorem: whenever
    the specification finds a module that supplies a name to a conftest.py (through any
    chain of star imports, pytest_plugins entries and explicit imports of that name), the
    resolver's imported-name set of that conftest contains the name — in every state whose
    reverse index covers its definitions and whose memo entries are closures; in
    particular in every state reached by analyses, closes and queries. *)
From PLS Require Import Check.C07 Proofs.Basics Proofs.CacheValid Proofs.Termination Proofs.ImportClosure
                        Proofs.Invariants Proofs.Cascade Proofs.WarmCold.
From Coq Require Import Lia Relations.

Section Complete.
  Variable dk : disk.
  Variable roots : list path.
  Variable s : index.
  Variable n : string.
  Hypothesis COV : covered s.

  Notation Cl := (Cl dk roots s).

  Lemma defs_in_has_def t : defs_in s t n <> [] -> has_def s n = true /\ mem_str n (file_def_names s t) = true.
  Proof.
    intros H. destruct (defs_in s t n) as [|d l] eqn:E; [contradiction|].
    assert (Hd : In d (defs_in s t n)) by (rewrite E; now left).
    unfold defs_in in Hd. apply filter_In in Hd as [Hd Hf]. unfold defs_named in Hd. apply filter_In in Hd as [Hd Hn].
    apply String.eqb_eq in Hn. apply path_eqb_eq in Hf. split.
    - unfold has_def. apply existsb_exists. exists d. split; [exact Hd|]. rewrite Hn. apply String.eqb_refl.
    - rewrite <- Hn. now apply file_def_names_in.
  Qed.

  (** the spec's source walk: any module it finds witnesses membership in the closure *)
  Lemma sources_sound : forall fuel m vis found vis',
    sources dk roots s fuel n m vis = (found, vis') -> found <> [] -> Cl m n /\ has_def s n = true.
  Proof.
    induction fuel as [|fuel IH]; intros m vis found vis' H Hne; [injection H as <- _; contradiction|].
    cbn [sources] in H. destruct (mem_path m vis); [injection H as <- _; contradiction|].
    destruct (content dk s m) as [c|] eqn:Ec; [|injection H as <- _; contradiction].
    destruct (negb (c_ok c)) eqn:Eok; [injection H as <- _; contradiction|].
    assert (Hedges : node_edges dk s m = c_edges c).
    { unfold node_edges. rewrite Ec. apply negb_false_iff in Eok. now rewrite Eok. }
    assert (F : forall edges af av found1 vis1,
               (forall e, In e edges -> In e (node_edges dk s m)) ->
               (af <> [] -> Cl m n /\ has_def s n = true) ->
               fold_left
                 (fun (acc : list path * list path) (e : edge) =>
                    let '(found, vis) := acc in
                    match resolve_edge dk s roots m e with
                    | None => (found, vis)
                    | Some tgt =>
                        let carries := match e_kind e with Star => true | Names ns => mem_str n ns end in
                        if carries then
                          let own := match defs_in s tgt n with [] => [] | _ => [tgt] end in
                          let '(sub, vis') := sources dk roots s fuel n tgt vis in
                          (found ++ own ++ sub, vis')
                        else (found, vis)
                    end) edges (af, av) = (found1, vis1) ->
               found1 <> [] -> Cl m n /\ has_def s n = true).
    { induction edges as [|e edges IHe]; intros af av f1 v1 Hin Hacc Hf Hn1; cbn [fold_left] in Hf.
      - injection Hf as <- _. now apply Hacc.
      - assert (Hin' : forall e0, In e0 edges -> In e0 (node_edges dk s m)) by (intros e0 H0; apply Hin; now right).
        destruct (resolve_edge dk s roots m e) as [tgt|] eqn:Er; [|now apply (IHe af av f1 v1 Hin' Hacc Hf Hn1)].
        destruct (match e_kind e with Star => true | Names ns => mem_str n ns end) eqn:Ecar;
          [|now apply (IHe af av f1 v1 Hin' Hacc Hf Hn1)].
        destruct (sources dk roots s fuel n tgt av) as [sub v'] eqn:Es.
        apply (IHe _ _ f1 v1 Hin') in Hf; [exact Hf| |exact Hn1].
        intros Hne2.
        destruct af as [|a0 af0]; [|apply Hacc; discriminate].
        cbn [app] in Hne2.
        (* the edge supplies the name itself, or leads to a module whose closure does *)
        assert (Hhas : has_def s n = true).
        { destruct (defs_in s tgt n) as [|d0 l0] eqn:Ed.
          - cbn [app] in Hne2. now destruct (IH tgt av sub v' Es Hne2).
          - apply (defs_in_has_def tgt). rewrite Ed. discriminate. }
        split; [|exact Hhas].
        destruct (e_kind e) as [|ns] eqn:Ek.
        + destruct (defs_in s tgt n) as [|d0 l0] eqn:Ed.
          * cbn [app] in Hne2. destruct (IH tgt av sub v' Es Hne2) as [HC _].
            apply (Cl_step dk roots s m tgt); [|exact HC]. exists e. split; [apply Hin; now left|]. split; assumption.
          * apply Cl_gives. exists e, tgt. split; [apply Hin; now left|]. split; [exact Er|].
            unfold edge_names. rewrite Ek. apply mem_str_in. apply (defs_in_has_def tgt). rewrite Ed. discriminate.
        + apply Cl_gives. exists e, tgt. split; [apply Hin; now left|]. split; [exact Er|].
          unfold edge_names. rewrite Ek. apply filter_In. split; [now apply mem_str_in|exact Hhas]. }
    apply (F (c_edges c) [] (m :: vis) found vis'); [intros e He; now rewrite Hedges|intros X; contradiction|exact H|exact Hne].
  Qed.

  Hypothesis MO : memo_ok dk roots s.

  Theorem imports_complete_holds dir : imports_complete dk roots s n dir.
  Proof.
    intros d _ Hc. unfold import_class in Hc. apply andb_prop in Hc as [_ Hm].
    unfold import_sources in Hm.
    destruct (sources dk roots s (enough_fuel dk s) n (conftest_py :: dir) []) as [found vis'] eqn:Es.
    cbn [fst] in Hm.
    assert (Hne : found <> []) by (intros ->; discriminate).
    destruct (sources_sound _ _ _ _ _ Es Hne) as [HC _].
    unfold is_imported. apply mem_str_in. now apply (imported_is_closure dk roots s MO).
  Qed.
End Complete.

(** ** every reached state qualifies *)
Section Reached.
  Variable dk : disk.
  Variable roots : list path.

  Lemma covered_base s s' : same_base s s' -> covered s -> covered s'.
  Proof.
    unfold same_base, covered. intros B H d Hd.
    change (defs s') with (defs (cold s')) in Hd. change (file_defs s') with (file_defs (cold s')).
    rewrite B in *. now apply H.
  Qed.

  Lemma post_aq7_base s q : same_base s (post_aq7 dk roots s q).
  Proof.
    assert (T : forall files s0, same_base s0 (touch dk roots s0 files)) by (intros; apply touch_base).
    assert (PC : forall s0 flt F n, same_base s0 (post_closest_with dk roots s0 flt F n)) by (intros; apply T).
    assert (PR : forall s0 F l n, same_base s0 (post_resolve_usage dk roots s0 F l n)).
    { intros s0 F l n. unfold post_resolve_usage. destruct (def_at_line s0 F l) as [cd|]; [|apply PC].
      destruct (String.eqb (d_name cd) n); apply PC. }
    destruct q as [F l c|F n|F|F|F|d]; cbn [post_aq7].
    - unfold post_goto. destruct (line_text dk s F l) as [tx|]; [|reflexivity]. destruct (word_at tx c); [|reflexivity].
      destruct (find _ (usages_of_file s F)); [apply PR|reflexivity].
    - apply PC.
    - unfold post_available. destruct (av_hit s F); [reflexivity|].
      destruct F as [|f dir]; [reflexivity|].
      unfold same_base. cbn. change (cold (set_av_cache ?x ?y)) with (cold x).
      apply (T (filter (in_cache s) (map (fun d => conftest_py :: d) (ancestors dir))) s).
    - reflexivity.
    - apply imp_store_base.
    - unfold post_refs. generalize (usage_by_name s (d_name d)). intros us.
      assert (G : forall us0 s0, same_base s s0 ->
                  same_base s (fold_left (fun s1 u => post_resolve_usage dk roots s1 (u_file u) (u_line u) (u_name u)) us0 s0)).
      { induction us0 as [|u us0 IH]; intros s0 B; cbn [fold_left]; [exact B|]. apply IH.
        unfold same_base in *. rewrite <- B. apply PR. }
      apply G. reflexivity.
  Qed.

  Lemma reached_covered s : reached dk roots s -> covered s.
  Proof.
    induction 1 as [|c F v s _ IH|F s _ IH|q s _ IH].
    - intros d [].
    - now apply analyze_covered.
    - exact IH.
    - eapply covered_base; [apply post_aq7_base|exact IH].
  Qed.

  Theorem imports_complete_reached s n dir : reached dk roots s -> imports_complete dk roots s n dir.
  Proof.
    intros R. apply imports_complete_holds; [now apply reached_covered|].
    exact (w_memo dk roots s (reached_ok dk roots s R)).
  Qed.

  (** the C01 statements without the hypothesis, for reached states *)
  Theorem closest_allowed_reached s n F :
    reached dk roots s -> F <> [] -> K_import_provenance dk roots s None F n = false ->
    allowed dk roots s F n (closest dk roots s F n) = true.
  Proof.
    intros R HF HK. apply closest_allowed; [exact HF| |exact HK].
    intros dir _. now apply imports_complete_reached.
  Qed.
  Theorem closest_visible_reached s n F d :
    reached dk roots s -> F <> [] -> K_import_provenance dk roots s None F n = false ->
    closest dk roots s F n = Some d -> visible dk roots s F n d = true /\ In d (defs_named s n).
  Proof.
    intros R HF HK. apply closest_visible; [exact HF| |exact HK].
    intros dir _. now apply imports_complete_reached.
  Qed.
End Reached.
