(** * What [get_imported_fixtures] computes: the names supplied along the closure of the
    resolved star-import graph — for every import graph (cycles, diamonds, self imports),
    with or without memo entries, provided each CURRENT memo entry holds such a closure.
    This is the closure characterisation C07 needs: a memo entry stored for a module by one
    query is a complete summary of everything reachable from it, so a later query that
    stops at the entry loses nothing, and one that walks past it gains nothing. *)
From Coq Require Import Lia Relations.
From PLS Require Import Model.Resolve Proofs.Basics Proofs.Termination.

Section Closure.
  Variable dk : disk.
  Variable roots : list path.
  Variable s : index.

  (** the import statements a file contributes (none if unknown or unparsable) *)
  Definition node_edges (X : path) : list edge :=
    match content dk s X with
    | Some c => if c_ok c then c_edges c else []
    | None => []
    end.
  Definition star (X Y : path) : Prop :=
    exists e, In e (node_edges X) /\ e_kind e = Star /\ resolve_edge dk s roots X e = Some Y.
  Definition edge_names (e : edge) (tgt : path) : list string :=
    match e_kind e with
    | Star => file_def_names s tgt
    | Names ns => filter (has_def s) ns
    end.
  Definition gives (X : path) (n : string) : Prop :=
    exists e tgt, In e (node_edges X) /\ resolve_edge dk s roots X e = Some tgt /\ In n (edge_names e tgt).
  Definition reach : path -> path -> Prop := clos_refl_trans path star.
  Definition Cl (A : path) (n : string) : Prop := exists X, reach A X /\ gives X n.

  Lemma Cl_step A B n : star A B -> Cl B n -> Cl A n.
  Proof. intros H [X [R G]]. exists X. split; [eapply rt_trans; [apply rt_step; exact H|exact R]|exact G]. Qed.
  Lemma Cl_gives A n : gives A n -> Cl A n.
  Proof. intros G. exists A. split; [apply rt_refl|exact G]. Qed.

  (** every current memo entry is a closure *)
  Definition memo_ok : Prop :=
    forall file c names, content dk s file = Some c -> imp_hit s file c = Some names ->
                         forall n, In n names <-> Cl file n.

  Hypothesis MO : memo_ok.

  (** the fold over one file's import statements, as in [imported_fuel] *)
  Definition edge_step (fuel : nat) (file : path) (acc : option (list string * list path)) (e : edge) :=
    match acc with
    | None => None
    | Some (names, vis) =>
        match resolve_edge dk s roots file e with
        | None => Some (names, vis)
        | Some tgt =>
            match e_kind e with
            | Star =>
                match imported_fuel dk roots s fuel tgt vis with
                | None => None
                | Some (sub, vis') => Some (names ++ file_def_names s tgt ++ sub, vis')
                end
            | Names ns => Some (names ++ filter (has_def s) ns, vis)
            end
        end
    end.

  Lemma imported_fuel_unfold fuel file vis :
    imported_fuel dk roots s (S fuel) file vis =
    if mem_path file vis then Some ([], vis) else
    match content dk s file with
    | None => Some ([], file :: vis)
    | Some c =>
        match imp_hit s file c with
        | Some names => Some (names, file :: vis)
        | None => if negb (c_ok c) then Some ([], file :: vis)
                  else fold_left (edge_step fuel file) (c_edges c) (Some ([], file :: vis))
        end
    end.
  Proof. reflexivity. Qed.

  (** ** soundness: every returned name is supplied somewhere in the closure *)
  Lemma imported_fuel_sound : forall fuel file vis names vis',
    imported_fuel dk roots s fuel file vis = Some (names, vis') -> forall n, In n names -> Cl file n.
  Proof.
    induction fuel as [|fuel IH]; intros file vis names vis' H n Hn; [discriminate|].
    rewrite imported_fuel_unfold in H.
    destruct (mem_path file vis); [injection H as <- _; destruct Hn|].
    destruct (content dk s file) as [c|] eqn:Ec; [|injection H as <- _; destruct Hn].
    destruct (imp_hit s file c) as [nm|] eqn:Eh.
    { injection H as <- _. now apply (MO file c nm Ec Eh). }
    destruct (negb (c_ok c)) eqn:Eok; [injection H as <- _; destruct Hn|].
    assert (Hedges : node_edges file = c_edges c).
    { unfold node_edges. rewrite Ec. apply negb_false_iff in Eok. now rewrite Eok. }
    assert (F : forall edges acc_names acc_vis names1 vis1,
               (forall e, In e edges -> In e (node_edges file)) ->
               (forall m, In m acc_names -> Cl file m) ->
               fold_left (edge_step fuel file) edges (Some (acc_names, acc_vis)) = Some (names1, vis1) ->
               forall m, In m names1 -> Cl file m).
    { induction edges as [|e edges IHe]; intros an av n1 v1 Hin Hacc Hf m Hm; cbn [fold_left] in Hf.
      - injection Hf as <- _. now apply Hacc.
      - assert (Hin' : forall e0, In e0 edges -> In e0 (node_edges file)) by (intros e0 H0; apply Hin; now right).
        unfold edge_step at 2 in Hf.
        destruct (resolve_edge dk s roots file e) as [tgt|] eqn:Er; [|now apply (IHe an av n1 v1 Hin' Hacc Hf)].
        destruct (e_kind e) as [|ns] eqn:Ek.
        + destruct (imported_fuel dk roots s fuel tgt av) as [[sub v']|] eqn:Ei.
          2:{ exfalso. clear -Hf. induction edges as [|x xs IHx]; cbn in Hf; [discriminate|auto]. }
          eapply (IHe _ _ n1 v1 Hin'); [|exact Hf|exact Hm].
          intros m0 Hm0. apply in_app_iff in Hm0 as [Hm0|Hm0]; [now apply Hacc|].
          apply in_app_iff in Hm0 as [Hm0|Hm0].
          * apply Cl_gives. exists e, tgt. split; [apply Hin; now left|]. split; [exact Er|].
            unfold edge_names. now rewrite Ek.
          * apply (Cl_step file tgt); [exists e; split; [apply Hin; now left|split; assumption]|].
            eapply IH; eauto.
        + eapply (IHe _ _ n1 v1 Hin'); [|exact Hf|exact Hm].
          intros m0 Hm0. apply in_app_iff in Hm0 as [Hm0|Hm0]; [now apply Hacc|].
          apply Cl_gives. exists e, tgt. split; [apply Hin; now left|]. split; [exact Er|].
          unfold edge_names. now rewrite Ek. }
    apply (F (c_edges c) [] (file :: vis) names vis'); [intros e He; now rewrite Hedges|intros m []|exact H|exact Hn].
  Qed.

  (** ** completeness *)
  (** a visited node is accounted for: its whole closure is among the names (memo hit), or
      what it supplies itself is and every module it star-imports has been visited *)
  Definition kind (X : path) (N : list string) (V : list path) : Prop :=
    (forall n, Cl X n -> In n N) \/
    ((forall n, gives X n -> In n N) /\ (forall Y, star X Y -> mem_path Y V = true)).

  Lemma kind_mono X N N' V V' :
    (forall n, In n N -> In n N') -> subset V V' -> kind X N V -> kind X N' V'.
  Proof.
    intros HN HV [H|[H1 H2]]; [left; intros n Hn; now apply HN, H|right].
    split; [intros n Hn; now apply HN, H1|intros Y HY; now apply HV, H2].
  Qed.

  Definition new_ok (vis vis' : list path) (N : list string) : Prop :=
    forall X, mem_path X vis' = true -> mem_path X vis = false -> kind X N vis'.

  Lemma mem_path_true_iff X l : mem_path X l = true <-> In X l.
  Proof.
    unfold mem_path, memb. rewrite existsb_exists. split.
    - intros [y [Hy E]]. apply path_eqb_eq in E. now subst.
    - intros H. exists X. split; [exact H|apply path_eqb_refl].
  Qed.

  Lemma imported_fuel_complete : forall fuel file vis names vis',
    imported_fuel dk roots s fuel file vis = Some (names, vis') ->
    subset vis vis' /\ mem_path file vis' = true /\ new_ok vis vis' names.
  Proof.
    induction fuel as [|fuel IH]; intros file vis names vis' H; [discriminate|].
    rewrite imported_fuel_unfold in H.
    destruct (mem_path file vis) eqn:Ev.
    { injection H as <- <-. split; [apply subset_refl|]. split; [exact Ev|]. intros X H1 H2. congruence. }
    assert (Hself : forall l, mem_path file (file :: l) = true) by (intros l; rewrite mem_path_cons, path_eqb_refl; reflexivity).
    (* the three leaf cases share their shape: only [file] is new *)
    assert (Leaf : forall nm, kind file nm (file :: vis) ->
                   subset vis (file :: vis) /\ mem_path file (file :: vis) = true /\ new_ok vis (file :: vis) nm).
    { intros nm Hk. split; [apply subset_cons|]. split; [apply Hself|].
      intros X H1 H2. rewrite mem_path_cons in H1. apply orb_true_iff in H1 as [H1|H1]; [|congruence].
      apply path_eqb_eq in H1. now subst. }
    destruct (content dk s file) as [c|] eqn:Ec.
    2:{ injection H as <- <-. apply Leaf. right. split.
        - intros n [e [tgt [He _]]]. unfold node_edges in He. rewrite Ec in He. destruct He.
        - intros Y [e [He _]]. unfold node_edges in He. rewrite Ec in He. destruct He. }
    destruct (imp_hit s file c) as [nm|] eqn:Eh.
    { injection H as <- <-. apply Leaf. left. intros n Hn. now apply (MO file c nm Ec Eh). }
    destruct (negb (c_ok c)) eqn:Eok.
    { injection H as <- <-. apply Leaf. right. apply negb_true_iff in Eok. split.
      - intros n [e [tgt [He _]]]. unfold node_edges in He. rewrite Ec, Eok in He. destruct He.
      - intros Y [e [He _]]. unfold node_edges in He. rewrite Ec, Eok in He. destruct He. }
    assert (Hedges : node_edges file = c_edges c).
    { unfold node_edges. rewrite Ec. apply negb_false_iff in Eok. now rewrite Eok. }
    (* the fold: processed edges are covered, new nodes are accounted for *)
    assert (F : forall edges done acc_names acc_vis names1 vis1,
               subset (file :: vis) acc_vis ->
               (forall X, mem_path X acc_vis = true -> mem_path X (file :: vis) = false -> kind X acc_names acc_vis) ->
               (forall e tgt, In e done -> resolve_edge dk s roots file e = Some tgt ->
                              (forall n, In n (edge_names e tgt) -> In n acc_names) /\
                              (e_kind e = Star -> mem_path tgt acc_vis = true)) ->
               fold_left (edge_step fuel file) edges (Some (acc_names, acc_vis)) = Some (names1, vis1) ->
               subset (file :: vis) vis1 /\
               (forall X, mem_path X vis1 = true -> mem_path X (file :: vis) = false -> kind X names1 vis1) /\
               (forall e tgt, In e (done ++ edges) -> resolve_edge dk s roots file e = Some tgt ->
                              (forall n, In n (edge_names e tgt) -> In n names1) /\
                              (e_kind e = Star -> mem_path tgt vis1 = true))).
    { induction edges as [|e edges IHe]; intros done an av n1 v1 Hsub Hnew Hdone Hf; cbn [fold_left] in Hf.
      - injection Hf as <- <-. rewrite app_nil_r. auto.
      - replace (done ++ e :: edges) with ((done ++ [e]) ++ edges) by (now rewrite <- app_assoc).
        unfold edge_step at 2 in Hf.
        destruct (resolve_edge dk s roots file e) as [tgt|] eqn:Er.
        2:{ apply (IHe (done ++ [e]) an av n1 v1 Hsub Hnew); [|exact Hf].
            intros e0 t0 He0 Hr0. apply in_app_iff in He0 as [He0|[<-|[]]]; [now apply Hdone|congruence]. }
        destruct (e_kind e) as [|ns] eqn:Ek.
        + destruct (imported_fuel dk roots s fuel tgt av) as [[sub v']|] eqn:Ei.
          2:{ exfalso. clear -Hf. induction edges as [|x xs IHx]; cbn in Hf; [discriminate|auto]. }
          destruct (IH tgt av sub v' Ei) as (S1 & S2 & S3).
          apply (IHe (done ++ [e]) (an ++ file_def_names s tgt ++ sub) v' n1 v1); [eapply subset_trans; eauto| | |exact Hf].
          * intros X HX1 HX2. destruct (mem_path X av) eqn:Eav.
            -- apply (kind_mono X an _ av v'); [intros n Hn; apply in_or_app; now left|exact S1|now apply Hnew].
            -- apply (kind_mono X sub _ v' v'); [intros n Hn; apply in_or_app; right; apply in_or_app; now right|apply subset_refl|now apply S3].
          * intros e0 t0 He0 Hr0. apply in_app_iff in He0 as [He0|[<-|[]]].
            -- destruct (Hdone e0 t0 He0 Hr0) as [D1 D2]. split; [intros n Hn; apply in_or_app; left; now apply D1|].
               intros Hk. apply S1. now apply D2.
            -- rewrite Er in Hr0. injection Hr0 as <-. split.
               ++ intros n Hn. unfold edge_names in Hn. rewrite Ek in Hn. apply in_or_app. right. apply in_or_app. now left.
               ++ intros _. exact S2.
        + apply (IHe (done ++ [e]) (an ++ filter (has_def s) ns) av n1 v1 Hsub); [| |exact Hf].
          * intros X HX1 HX2. apply (kind_mono X an _ av av); [intros n Hn; apply in_or_app; now left|apply subset_refl|now apply Hnew].
          * intros e0 t0 He0 Hr0. apply in_app_iff in He0 as [He0|[<-|[]]].
            -- destruct (Hdone e0 t0 He0 Hr0) as [D1 D2]. split; [intros n Hn; apply in_or_app; left; now apply D1|exact D2].
            -- rewrite Er in Hr0. injection Hr0 as <-. split; [|congruence].
               intros n Hn. unfold edge_names in Hn. rewrite Ek in Hn. apply in_or_app. now right. }
    destruct (F (c_edges c) [] [] (file :: vis) names vis' (subset_refl _)) as (F1 & F2 & F3).
    - intros X H1 H2. congruence.
    - intros e tgt [].
    - exact H.
    - split; [eapply subset_trans; [apply subset_cons|exact F1]|]. split; [apply F1, Hself|].
      intros X H1 H2. destruct (path_eqb X file) eqn:Exf.
      + apply path_eqb_eq in Exf. subst X. right. split.
        * intros n [e [tgt [He [Hr Hn]]]]. rewrite Hedges in He. now apply (F3 e tgt He Hr).
        * intros Y [e [He [Hk Hr]]]. rewrite Hedges in He. now apply (F3 e Y He Hr).
      + apply F2; [exact H1|]. rewrite mem_path_cons, Exf, H2. reflexivity.
  Qed.

  (** a set of accounted-for nodes contains the closure of each of its members *)
  Lemma accounted_closed N V : (forall X, mem_path X V = true -> kind X N V) ->
    forall A n, mem_path A V = true -> Cl A n -> In n N.
  Proof.
    intros Hall A n HA [X [R G]]. apply clos_rt_rt1n in R. revert HA.
    induction R as [A|A B X HAB HBX IH]; intros HA.
    - destruct (Hall A HA) as [H|[H _]]; [apply H; now apply Cl_gives|now apply H].
    - destruct (Hall A HA) as [H|[_ H]].
      + apply H. exists X. split; [eapply rt_trans; [apply rt_step; exact HAB|now apply clos_rt1n_rt]|exact G].
      + apply IH; [exact G|now apply H].
  Qed.

  (** ** the characterisation *)
  Theorem imported_is_closure file n : In n (imported dk roots s file) <-> Cl file n.
  Proof.
    unfold imported.
    destruct (imported_fuel dk roots s (enough_fuel dk s) file []) as [[names vis']|] eqn:E.
    2:{ exfalso. now apply (imported_never_out_of_fuel dk roots s file). }
    split.
    - now apply (imported_fuel_sound _ _ _ _ _ E).
    - destruct (imported_fuel_complete _ _ _ _ _ E) as (_ & Hf & Hnew).
      apply (accounted_closed names vis'); [|exact Hf]. intros X HX. now apply Hnew.
  Qed.
End Closure.
