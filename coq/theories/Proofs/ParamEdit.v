(** * The parameter edit keeps every valid signature valid, adds the fixture as a parameter
    (positional, or keyword-only behind a leading bare [*]) and leaves the other parameters
    in place. *)
From PLS Require Import Model.ParamEdit.
Open Scope string_scope.

Lemma ins_pos_valid x ps : valid_sig ps = true -> valid_sig (ins_pos x ps) = true.
Proof.
  induction ps as [|[k n] r IH]; intros H; [reflexivity|].
  destruct k; cbn [ins_pos]; [cbn [valid_sig] in *; now apply IH| | | |]; exact H.
Qed.
(** in a valid signature all [Pos] parameters come first *)
Theorem insert_keeps_valid x ps : valid_sig ps = true -> valid_sig (insert_after_last_pos x ps) = true.
Proof.
  intros H. destruct ps as [|[k n] r]; [reflexivity|].
  destruct k; try (now apply ins_pos_valid). destruct n; [exact H|now apply ins_pos_valid].
Qed.

Lemma ins_pos_in x ps : In (Pos, x) (ins_pos x ps).
Proof. induction ps as [|[k n] r IH]; [now left|]. destruct k; cbn [ins_pos]; try now left. right. exact IH. Qed.

Definition bare_star_led (ps : list param) : bool :=
  match ps with (VarStar, EmptyString) :: _ => true | _ => false end.
(** positional unless the list is headed by the bare marker; then keyword-only *)
Theorem insert_adds_positional x ps : bare_star_led ps = false -> In (Pos, x) (insert_after_last_pos x ps).
Proof.
  intros H. destruct ps as [|[k n] r]; [now left|]. destruct k; try apply ins_pos_in.
  destruct n; [discriminate|apply ins_pos_in].
Qed.
Theorem insert_adds_parameter x ps :
  In (Pos, x) (insert_after_last_pos x ps) \/ In (Kw, x) (insert_after_last_pos x ps).
Proof.
  destruct (bare_star_led ps) eqn:E; [|left; now apply insert_adds_positional].
  destruct ps as [|[[] [|]] r]; try discriminate. right. right. now left.
Qed.

(** the other parameters are exactly the old ones, in order *)
Fixpoint remove_first (x : string) (ps : list param) : list param :=
  match ps with
  | [] => []
  | (k, n) :: r => if (match k with Pos | Kw => true | _ => false end) && String.eqb n x then r else (k, n) :: remove_first x r
  end.
Lemma ins_pos_others x ps : (forall k, ~ In (k, x) ps) -> remove_first x (ins_pos x ps) = ps.
Proof.
  induction ps as [|[k n] r IH]; intros Hn; cbn [ins_pos remove_first].
  - cbn. now rewrite String.eqb_refl.
  - destruct k; cbn [remove_first andb]; try now rewrite String.eqb_refl.
    destruct (String.eqb n x) eqn:E.
    + apply String.eqb_eq in E. subst. exfalso. apply (Hn Pos). now left.
    + f_equal. apply IH. intros k H. apply (Hn k). now right.
Qed.
Theorem insert_keeps_others x ps :
  (forall k, ~ In (k, x) ps) -> remove_first x (insert_after_last_pos x ps) = ps.
Proof.
  intros Hn. destruct ps as [|[k n] r]; [now apply ins_pos_others|].
  destruct k; try (now apply ins_pos_others). destruct n; [|now apply ins_pos_others].
  cbn [insert_after_last_pos remove_first andb]. now rewrite String.eqb_refl.
Qed.

(** what the repair changed: appending after a defaulted parameter is a syntax error *)
Lemma insert_at_end_refuted :
  valid_sig [(PosD, "a")] = true /\ valid_sig (insert_at_end "db" [(PosD, "a")]) = false
  /\ valid_sig (insert_after_last_pos "db" [(PosD, "a")]) = true.
Proof. repeat split. Qed.
