(** * The parameter edit keeps every valid signature valid, adds the fixture as a parameter
    (positional, or keyword-only behind a leading bare [*]) and leaves the other parameters
    in place. *)
From PLS Require Import Model.ParamEdit.
Open Scope string_scope.

Lemma ins_pos_valid x ps : valid_sig ps = true -> valid_sig (ins_pos x ps) = true.
Proof.
  induction ps as [|[k n] r IH]; intros H; [reflexivity|].
  destruct k; cbn [ins_pos]; [cbn [valid_sig] in *; now apply IH| | | |]; exact H.
Qed.
(** in a valid signature all [Pos] parameters come first *)
Theorem insert_keeps_valid x ps : valid_sig ps = true -> valid_sig (insert_after_last_pos x ps) = true.
Proof.
  intros H. destruct ps as [|[k n] r]; [reflexivity|].
  destruct k; try (now apply ins_pos_valid). destruct n; [exact H|now apply ins_pos_valid].
Qed.

Lemma ins_pos_in x ps : In (Pos, x) (ins_pos x ps).
Proof. induction ps as [|[k n] r IH]; [now left|]. destruct k; cbn [ins_pos]; try now left. right. exact IH. Qed.

Definition bare_star_led (ps : list param) : bool :=
  match ps with (VarStar, EmptyString) :: _ => true | _ => false end.
(** positional unless the list is headed by the bare marker; then keyword-only *)
Theorem insert_adds_positional x ps : bare_star_led ps = false -> In (Pos, x) (insert_after_last_pos x ps).
Proof.
  intros H. destruct ps as [|[k n] r]; [now left|]. destruct k; try apply ins_pos_in.
  destruct n; [discriminate|apply ins_pos_in].
Qed.
Theorem insert_adds_parameter x ps :
  In (Pos, x) (insert_after_last_pos x ps) \/ In (Kw, x) (insert_after_last_pos x ps).
Proof.
  destruct (bare_star_led ps) eqn:E; [|left; now apply insert_adds_positional].
  destruct ps as [|[[] [|]] r]; try discriminate. right. right. now left.
Qed.

(** the other parameters are exactly the old ones, in order *)
Fixpoint remove_first (x : string) (ps : list param) : list param :=
  match ps with
  | [] => []
  | (k, n) :: r => if (match k with Pos | Kw => true | _ => false end) && String.eqb n x then r else (k, n) :: remove_first x r
  end.
Lemma ins_pos_others x ps : (forall k, ~ In (k, x) ps) -> remove_first x (ins_pos x ps) = ps.
Proof.
  induction ps as [|[k n] r IH]; intros Hn; cbn [ins_pos remove_first].
  - cbn. now rewrite String.eqb_refl.
  - destruct k; cbn [remove_first andb]; try now rewrite String.eqb_refl.
    destruct (String.eqb n x) eqn:E.
    + apply String.eqb_eq in E. subst. exfalso. apply (Hn Pos). now left.
    + f_equal. apply IH. intros k H. apply (Hn k). now right.
Qed.
Theorem insert_keeps_others x ps :
  (forall k, ~ In (k, x) ps) -> remove_first x (insert_after_last_pos x ps) = ps.
Proof.
  intros Hn. destruct ps as [|[k n] r]; [now apply ins_pos_others|].
  destruct k; try (now apply ins_pos_others). destruct n; [|now apply ins_pos_others].
  cbn [insert_after_last_pos remove_first andb]. now rewrite String.eqb_refl.
Qed.

(** what the repair changed: appending after a defaulted parameter is a syntax error *)
Lemma insert_at_end_refuted :
  valid_sig [(PosD, "a")] = true /\ valid_sig (insert_at_end "db" [(PosD, "a")]) = false
  /\ valid_sig (insert_after_last_pos "db" [(PosD, "a")]) = true.
Proof. repeat split. Qed.

(** ** the text level: from the name of a starred parameter back to its first star.
    For EVERY document [pre ++ stars ++ gap ++ rest] in which [stars] is a non-empty run of
    [*], [gap] is any run of ASCII white space (blanks, tabs, line breaks) and [pre] does not
    end in a star, the walk from the name lands exactly on the first star: the new parameter
    goes in front of the star(s), never between them, never between star and name, never on
    an earlier line. *)
From Coq Require Import NArith Arith Lia.
Close Scope string_scope.
Lemma nth_error_app_mid {A} (a : list A) x b : nth_error (a ++ x :: b) (List.length a) = Some x.
Proof. induction a as [|y a IH]; [reflexivity|exact IH]. Qed.

Lemma back_while_run p (pre run rest : list N) :
  Forall (fun b => p b = true) run ->
  match rev pre with [] => True | b :: _ => p b = false end ->
  back_while p (pre ++ run ++ rest) (List.length (pre ++ run)) = List.length pre.
Proof.
  intros Hrun Hpre. revert rest. induction run as [|x run IH] using rev_ind; intros rest.
  - rewrite app_nil_r. cbn [app].
    destruct pre as [|y pre'] using rev_ind; [reflexivity|]. clear IHpre'.
    rewrite rev_app_distr in Hpre. cbn in Hpre.
    replace (List.length (pre' ++ [y])) with (S (List.length pre')) by (rewrite app_length; cbn [List.length]; lia).
    cbn [back_while].
    replace ((pre' ++ [y]) ++ rest) with (pre' ++ y :: rest) by (rewrite <- app_assoc; reflexivity).
    rewrite nth_error_app_mid. now rewrite Hpre.
  - apply Forall_app in Hrun as [Hr Hx]. inversion Hx as [|? ? Px _]; subst.
    replace (List.length (pre ++ run ++ [x])) with (S (List.length (pre ++ run)))
      by (rewrite !app_length; cbn [List.length]; lia).
    cbn [back_while].
    replace (pre ++ (run ++ [x]) ++ rest) with ((pre ++ run) ++ x :: rest)
      by (rewrite <- !app_assoc; reflexivity).
    rewrite nth_error_app_mid, Px.
    replace ((pre ++ run) ++ x :: rest) with (pre ++ run ++ (x :: rest)) by (now rewrite <- app_assoc).
    apply IH. exact Hr.
Qed.

Theorem star_start_lands_on_the_first_star (pre stars gap rest : list N) :
  stars <> [] -> Forall (fun b => b = star_b) stars -> Forall (fun b => ws_b b = true) gap ->
  match rev pre with [] => True | b :: _ => b <> star_b end ->
  star_start (pre ++ stars ++ gap ++ rest) (List.length (pre ++ stars ++ gap)) = List.length pre.
Proof.
  intros Hne Hs Hg Hp. unfold star_start.
  replace (pre ++ stars ++ gap ++ rest) with ((pre ++ stars) ++ gap ++ rest) by (now rewrite <- app_assoc).
  replace (List.length (pre ++ stars ++ gap)) with (List.length ((pre ++ stars) ++ gap)) by (now rewrite <- app_assoc).
  rewrite (back_while_run ws_b (pre ++ stars) gap rest Hg).
  - replace ((pre ++ stars) ++ gap ++ rest) with (pre ++ stars ++ (gap ++ rest)) by (now rewrite <- app_assoc).
    apply back_while_run.
    + apply Forall_forall. intros b Hb. rewrite Forall_forall in Hs. rewrite (Hs b Hb). reflexivity.
    + destruct (rev pre) as [|b r]; [exact I|]. apply N.eqb_neq. intros E. apply Hp. now symmetry.
  - rewrite rev_app_distr. destruct stars as [|s0 stars'] using rev_ind; [contradiction|]. clear IHstars'.
    rewrite rev_app_distr. cbn [rev app]. apply Forall_app in Hs as [_ Hs0]. inversion Hs0; subst. reflexivity.
Qed.

(** the three other walks, refuted on concrete signatures *)
(** open paren, star, TAB, a, close paren *)
Definition sig_tab : list N := [40; 42; 9; 97; 41]%N.
(** open paren, star, star, k, close paren *)
Definition sig_kw : list N := [40; 42; 42; 107; 41]%N.
(** open paren, hash, c, LF, blank, star, a, close paren *)
Definition sig_ml : list N := [40; 35; 99; 10; 32; 42; 97; 41]%N.
Lemma star_start_old_refuted :
  star_start_old sig_tab 3 = 3 /\ star_start sig_tab 3 = 1.
Proof. vm_compute. split; reflexivity. Qed.
Lemma star_start_rfind_refuted :
  rfind_star sig_kw 3 = 2 /\ star_start sig_kw 3 = 1.
Proof. vm_compute. split; reflexivity. Qed.
Lemma star_start_s102_refuted :
  star_start_s102 sig_ml 6 = 3 /\ star_start sig_ml 6 = 5.
Proof. vm_compute. split; reflexivity. Qed.
