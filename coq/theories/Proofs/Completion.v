(** * Proofs for C18: the offered set (list algebra), the sort keys, and the AST path of
    the context classification against Spec/CompletionSpec.v. *)
From Coq Require Import Arith Lia.
From PLS Require Import Spec.CompletionSpec Proofs.Basics Proofs.Extract.
From PLS Require Proofs.Available.
Open Scope N_scope.

(** ** the offered set *)
Theorem offered_exact avail F c d :
  In d (offered avail F c) <->
  In d avail /\ (let '(declared, cur, sc) := ctx_filter c in excluded d declared cur sc = false).
Proof.
  unfold offered. destruct (ctx_filter c) as [[declared cur] sc]. rewrite filter_In.
  split; intros [H1 H2]; split; try exact H1; [now apply negb_true_iff in H2|now apply negb_true_iff].
Qed.

Lemma nodup_map_filter {A B} (f : A -> B) (p : A -> bool) l : NoDup (map f l) -> NoDup (map f (filter p l)).
Proof.
  induction l as [|x l IH]; intros H; [constructor|]. cbn [map] in H. inversion H as [|? ? Hn Hr]; subst.
  cbn [filter]. destruct (p x); [|now apply IH]. cbn [map]. constructor; [|now apply IH].
  intros Hin. apply Hn. apply in_map_iff in Hin as [y [Hy Hf]]. apply filter_In in Hf as [Hf _].
  apply in_map_iff. eauto.
Qed.
Theorem offered_one_entry_per_name avail F c :
  NoDup (map d_name avail) -> NoDup (map d_name (offered avail F c)).
Proof.
  intros H. unfold offered. destruct (ctx_filter c) as [[declared cur] sc]. now apply nodup_map_filter.
Qed.
Theorem offered_from_index_one_entry_per_name dk roots s F c :
  NoDup (map d_name (offered (available_cold dk roots s F) F c)).
Proof. apply offered_one_entry_per_name. apply Available.available_names_nodup. Qed.

(** what is never offered *)
Theorem offered_respects_context avail F fn line isf declared sc d :
  In d (offered avail F (CSig fn line isf declared sc)) \/ In d (offered avail F (CBody fn line isf declared sc)) ->
  mem_str (d_name d) declared = false
  /\ d_name d <> "self" /\ d_name d <> "cls"
  /\ (isf = true -> d_name d <> fn)
  /\ (forall s, sc = Some s -> s <= d_scope d).
Proof.
  intros H.
  assert (E : excluded d (Some declared) (if isf then Some fn else None) sc = false).
  { destruct H as [H|H]; apply offered_exact in H as [_ H]; exact H. }
  unfold excluded in E. apply orb_false_iff in E as [E E4]. apply orb_false_iff in E as [E E3].
  apply orb_false_iff in E as [E1 E2].
  split; [exact E3|]. unfold mem_str, memb in E1. cbn [existsb] in E1.
  apply orb_false_iff in E1 as [Ea Eb]. apply orb_false_iff in Eb as [Eb _].
  split; [intros X; rewrite X in Ea; discriminate|]. split; [intros X; rewrite X in Eb; discriminate|].
  split.
  - intros -> X. rewrite X, String.eqb_refl in E2. discriminate.
  - intros s0 ->. apply N.ltb_ge in E4. exact E4.
Qed.

(** ** sort keys: same file < conftest / project < plugin < third party *)
Theorem sort_priority_monotone F a b :
  priority F a < priority F b -> String.ltb (sort_text F a) (sort_text F b) = true.
Proof.
  unfold sort_text, priority.
  destruct (path_eqb (d_file a) F), (d_third a), (d_plugin a), (path_eqb (d_file b) F), (d_third b), (d_plugin b);
    cbn [digit]; intros H; try lia; reflexivity.
Qed.
Theorem sort_same_group_by_name F a b :
  priority F a = priority F b ->
  String.compare (sort_text F a) (sort_text F b) = String.compare (d_name a) (d_name b).
Proof.
  unfold sort_text. intros ->. destruct (priority F b) as [|[p|p|]]; try destruct p; reflexivity.
Qed.

(** ** the AST path against the spec *)
Lemma find_map_cons {A B} (f : A -> option B) x l :
  find_map f (x :: l) = match f x with Some y => Some y | None => find_map f l end.
Proof. reflexivity. Qed.

Lemma expect_eqb_refl e : expect_eqb e e = true.
Proof. destruct e; cbn; rewrite ?String.eqb_refl, ?N.eqb_refl; reflexivity. Qed.
Lemma existsb_in_refl e l : In e l -> existsb (expect_eqb e) l = true.
Proof. intros H. apply existsb_exists. exists e. split; [exact H|apply expect_eqb_refl]. Qed.

(** decorators *)
Lemma dec_ctx_cases l d :
  (dec_ctx l d = Some CUse /\ dec_expect l d = [EUse])
  \/ (dec_ctx l d = Some CParam /\ dec_expect l d = [EParam])
  \/ (dec_ctx l d = None /\ dec_expect l d = []).
Proof.
  unfold dec_ctx, dec_expect. destruct (within l (cd_start d) (cd_end d)); [|right; right; split; reflexivity].
  rewrite <- !is_mark_spelling. destruct (is_mark "usefixtures" (cd_expr d)); [left; split; reflexivity|].
  destruct (is_mark "parametrize" (cd_expr d) && has_indirect (cd_expr d)); [right; left; split; reflexivity|].
  right; right. split; reflexivity.
Qed.
Lemma decs_ctx l decs :
  match find_map (dec_ctx l) decs with
  | Some CUse => In EUse (flat_map (dec_expect l) decs)
  | Some CParam => In EParam (flat_map (dec_expect l) decs)
  | Some _ => False
  | None => flat_map (dec_expect l) decs = []
  end.
Proof.
  induction decs as [|d ds IH]; [reflexivity|]. rewrite find_map_cons. cbn [flat_map].
  destruct (dec_ctx_cases l d) as [[H1 H2]|[[H1 H2]|[H1 H2]]]; rewrite H1.
  - rewrite H2. now left.
  - rewrite H2. now left.
  - rewrite H2. cbn [app]. exact IH.
Qed.

Fixpoint mark_hit_expect l (m : cmark) : mark_hit l m = mark_expect l m.
Proof.
  destruct m as [f s e|ms|]; cbn [mark_hit mark_expect]; [now rewrite is_mark_spelling| |reflexivity].
  induction ms as [|x r IH]; cbn [existsb]; [reflexivity|]. now rewrite mark_hit_expect, IH.
Qed.

Definition mark_result_ok (l : N) (r : option ctx) (marks : list expect) : Prop :=
  match r with
  | Some CUse => In EUse marks
  | Some CParam => In EParam marks
  | Some _ => False
  | None => marks = []
  end.

Fixpoint stmt_decorator_ctx l (st : cstmt) :
  mark_result_ok l (decorator_ctx l st) (flat_map (stmt_mark_expect l) (ccollected st)).
Proof.
  destruct st as [name decs params sl bf start eline|decs body|v s e|].
  - cbn [decorator_ctx ccollected flat_map stmt_mark_expect]. rewrite app_nil_r.
    pose proof (decs_ctx l decs) as H. unfold mark_result_ok. destruct (find_map (dec_ctx l) decs) as [[]|]; exact H.
  - cbn [decorator_ctx ccollected flat_map stmt_mark_expect].
    pose proof (decs_ctx l decs) as H. unfold mark_result_ok.
    destruct (find_map (dec_ctx l) decs) as [c|].
    + destruct c; try exact H; (apply in_or_app; now left).
    + rewrite H. cbn [app]. clear H.
      induction body as [|x r IH]; [reflexivity|]. rewrite find_map_cons. cbn [flat_map]. rewrite flat_map_app.
      pose proof (stmt_decorator_ctx l x) as Hx. unfold mark_result_ok in Hx.
      destruct (decorator_ctx l x) as [c|].
      * destruct c; try exact Hx; (apply in_or_app; now left).
      * rewrite Hx. cbn [app]. exact IH.
  - cbn [decorator_ctx ccollected flat_map stmt_mark_expect]. rewrite app_nil_r. unfold mark_result_ok.
    destruct v as [v|]; [|reflexivity]. rewrite mark_hit_expect.
    destruct (within l s e && mark_expect l v); [now left|reflexivity].
  - reflexivity.
Qed.
Lemma module_decorator_ctx l m :
  mark_result_ok l (find_map (decorator_ctx l) m) (flat_map (stmt_mark_expect l) (flat_map ccollected m)).
Proof.
  induction m as [|x r IH]; [reflexivity|]. rewrite find_map_cons. cbn [flat_map]. rewrite flat_map_app.
  pose proof (stmt_decorator_ctx l x) as Hx. unfold mark_result_ok in *.
  destruct (decorator_ctx l x) as [c|].
  - destruct c; try exact Hx; (apply in_or_app; now left).
  - rewrite Hx. cbn [app]. exact IH.
Qed.

(** the end of the signature lies where the spec allows it *)
Lemma first_colon_line_range ls : forall n i r, first_colon_line ls i n = Some r -> i + 1 <= r /\ r <= i + N.of_nat n.
Proof.
  induction n as [|n IH]; intros i r H; [discriminate|]. cbn [first_colon_line] in H.
  destruct (nth_opt ls i) as [t|]; [|discriminate]. destruct (ends_with_colon t).
  - injection H as <-. lia.
  - apply IH in H. lia.
Qed.

Definition wf_fun (sig_last body_first : option N) (start : N) : Prop :=
  1 <= start /\ (forall x, sig_last = Some x -> start <= x) /\ exists b, body_first = Some b /\ start <= b.

Lemma signature_end_split ls start sig_last body_first l :
  wf_fun sig_last body_first start ->
  let last := match sig_last with Some x => N.max x start | None => start end in
  let bf := match body_first with Some b => b | None => 0 end in
  (l <=? signature_end_line ls start sig_last body_first = true -> (l <=? last) || (l <? bf) = true)
  /\ (l <=? signature_end_line ls start sig_last body_first = false -> (last <? l) || (bf <=? l) = true).
Proof.
  intros [H1 [Hs [b [Hb Hsb]]]]. subst body_first. cbn zeta.
  unfold signature_end_line, signature_end_line_with.
  set (last0 := match sig_last with Some l0 => l0 | None => start end).
  assert (Hl0 : last0 = match sig_last with Some x => N.max x start | None => start end).
  { unfold last0. destruct sig_last as [x|]; [|reflexivity]. specialize (Hs x eq_refl). lia. }
  rewrite <- Hl0. assert (Hge : start <= last0) by (unfold last0; destruct sig_last as [x|]; [apply Hs; reflexivity|lia]).
  set (scan_end := N.min (N.min (N.max (b - 1) last0) (last0 + 10)) (len ls)).
  destruct (first_colon_line ls (last0 - 1) (N.to_nat (scan_end - (last0 - 1)))) as [r|] eqn:E.
  - apply first_colon_line_range in E. rewrite N2Nat.id in E.
    assert (Hr1 : last0 <= r) by lia.
    assert (Hr2 : r <= N.max (b - 1) last0).
    { destruct E as [_ E]. unfold scan_end in E. lia. }
    split; intros Hl; apply orb_true_iff.
    + apply N.leb_le in Hl. destruct (N.le_gt_cases r last0); [left; apply N.leb_le; lia|right; apply N.ltb_lt; lia].
    + apply N.leb_gt in Hl. left. apply N.ltb_lt. lia.
  - split; intros Hl; apply orb_true_iff.
    + apply N.leb_le in Hl. destruct (N.le_gt_cases l last0); [left; apply N.leb_le; lia|right; apply N.ltb_lt; lia].
    + apply N.leb_gt in Hl. right. apply N.leb_le. lia.
Qed.

Definition wf_stmt (st : cstmt) : Prop :=
  match st with CFun _ _ _ sl bf start _ => wf_fun sl bf start | _ => True end.
Definition fn_result_ok (r : option ctx) (fns : list expect) : Prop :=
  match r with
  | Some (CSig fn s _ _ _) => In (ESig fn s) fns
  | Some (CBody fn s _ _ _) => In (EBody fn s) fns
  | Some _ => False
  | None => fns = []
  end.

Lemma existsb_ext_dec decs :
  existsb (fun d => is_fixture_decorator (cd_expr d)) decs = existsb (fun d => fixture_spelling (cd_expr d)) decs.
Proof. induction decs as [|d ds IH]; [reflexivity|]. cbn [existsb]. now rewrite is_fixture_decorator_spelling, IH. Qed.

Fixpoint stmt_function_ctx ls l (st : cstmt) :
  Forall wf_stmt (ccollected st) ->
  fn_result_ok (function_ctx ls l st) (flat_map (stmt_fn_expect l) (ccollected st)).
Proof.
  intros Hwf. destruct st as [name decs params sl bf start eline|decs body|v s e|].
  - cbn [ccollected flat_map stmt_fn_expect function_ctx]. rewrite app_nil_r.
    inversion Hwf as [|? ? Hf _]; subst. cbn [wf_stmt] in Hf.
    destruct (within l start eline); cbn [negb andb]; [|reflexivity].
    rewrite existsb_ext_dec.
    rewrite (orb_comm (prefixb "test_" name)).
    destruct (existsb (fun d => fixture_spelling (cd_expr d)) decs || prefixb "test_" name); cbn [negb]; [|reflexivity].
    pose proof (signature_end_split ls start sl bf l Hf) as [Hs Hb]. cbn zeta in Hs, Hb.
    destruct Hf as [_ [_ [b [-> _]]]].
    destruct (l <=? signature_end_line ls start sl (Some b)) eqn:E; cbn [fn_result_ok].
    + rewrite (Hs eq_refl). apply in_or_app. left. now left.
    + rewrite (Hb eq_refl). apply in_or_app. right. now left.
  - cbn [ccollected flat_map stmt_fn_expect function_ctx app]. cbn [ccollected] in Hwf.
    inversion Hwf as [|? ? _ Hrest]; subst. clear Hwf.
    revert Hrest. induction body as [|x r IH]; intros Hrest; [reflexivity|].
    rewrite find_map_cons. cbn [flat_map] in *. rewrite flat_map_app. apply Forall_app in Hrest as [Hx Hr].
    pose proof (stmt_function_ctx ls l x Hx) as H. unfold fn_result_ok in *.
    destruct (function_ctx ls l x) as [c|].
    + destruct c; try exact H; apply in_or_app; now left.
    + rewrite H. cbn [app]. now apply IH.
  - reflexivity.
  - reflexivity.
Qed.
Lemma module_function_ctx ls l m :
  Forall wf_stmt (flat_map ccollected m) ->
  fn_result_ok (find_map (function_ctx ls l) m) (flat_map (stmt_fn_expect l) (flat_map ccollected m)).
Proof.
  induction m as [|x r IH]; intros Hwf; [reflexivity|]. rewrite find_map_cons. cbn [flat_map] in *. rewrite flat_map_app.
  apply Forall_app in Hwf as [Hx Hr].
  pose proof (stmt_function_ctx ls l x Hx) as H. unfold fn_result_ok in *.
  destruct (function_ctx ls l x) as [c|].
  - destruct c; try exact H; apply in_or_app; now left.
  - rewrite H. cbn [app]. now apply IH.
Qed.

(** On every line of every well-formed layout the AST path answers with a classification
    the spec accepts — the collected test / fixture function that spans the line, signature
    or body as the documented boundary allows, a usefixtures argument list, or nothing —
    except that it also answers inside a parametrize mark WITHOUT [indirect] (the listed
    finding). *)
Theorem ast_ctx_meets_spec ls m l :
  Forall wf_stmt (flat_map ccollected m) ->
  existsb (expect_eqb (expect_of (ast_ctx ls m l))) (spec_expect m l) = true.
Proof.
  intros Hwf. unfold ast_ctx, spec_expect.
  pose proof (module_decorator_ctx l m) as Hd. unfold mark_result_ok in Hd.
  destruct (find_map (decorator_ctx l) m) as [c|].
  - destruct c; try contradiction;
      (destruct (flat_map (stmt_mark_expect l) (flat_map ccollected m)) as [|e es] eqn:E; [contradiction|];
       now apply existsb_in_refl).
  - rewrite Hd. pose proof (module_function_ctx ls l m Hwf) as Hf. unfold fn_result_ok in Hf.
    destruct (find_map (function_ctx ls l) m) as [c|].
    + destruct c; try contradiction;
        (destruct (flat_map (stmt_fn_expect l) (flat_map ccollected m)) as [|e es] eqn:E; [contradiction|];
         now apply existsb_in_refl).
    + rewrite Hf. reflexivity.
Qed.

(** ** the text fallback (partial): it only ever answers with a signature or a usefixtures
    context, and in a document that parses only with the latter *)
Theorem text_ctx_kinds fixed parsed_ok content l c :
  text_ctx_with fixed parsed_ok content l = Some c ->
  c = CUse \/ (fixed && parsed_ok = false /\ exists fn line isf ps sc, c = CSig fn line isf ps sc /\ line <= l).
Proof.
  unfold text_ctx_with, text_ctx_gen. intros H.
  destruct ((l =? 0) || (len (text_lines content) <? l)) eqn:E0; [discriminate|].
  destruct (usefixtures_scan fixed _ [] 11) as [res|] eqn:Eu.
  - left. subst res.
    assert (G : forall n up below r, usefixtures_scan fixed up below n = Some (Some r) -> r = CUse).
    { induction n as [|n IH]; intros up below r Hs; [destruct up; discriminate|]. destruct up as [|line up]; [discriminate|].
      cbn [usefixtures_scan] in Hs.
      destruct (Text.find s_usefixtures line) as [pos|]; [|now apply IH in Hs].
      destruct (slice_from line pos) as [tail|]; [|now apply IH in Hs].
      destruct (match below with [] => _ | _ => _ end) as [depth closed].
      destruct ((0 <? depth)%Z && negb closed); [now injection Hs as <-|].
      destruct ((match below with [] => true | _ => false end) && (depth =? 0)%Z); [|now apply IH in Hs].
      destruct (rfind_cp 41 tail), (Text.find [40] tail); try (now injection Hs as <-);
        match type of Hs with context [if ?b then _ else _] => destruct b end; (now injection Hs as <-) || discriminate. }
    eapply G. exact Eu.
  - right. destruct (fixed && parsed_ok) eqn:Ef; [discriminate|]. split; [reflexivity|].
    destruct (find_def_up _ _ (l - 1) 51) as [[di dl]|] eqn:Ed; [|discriminate].
    assert (Hdi : di <= l - 1).
    { revert Ed. generalize (rev (firstn (N.to_nat l) (text_lines content))) as up. generalize (l - 1) as i. generalize 51%nat as n.
      induction n as [|n IH]; intros i up Hs; [destruct up; discriminate|]. destruct up as [|x up]; [discriminate|]. cbn [find_def_up] in Hs.
      destruct (after_def_keyword (trim x)); [injection Hs as <- _; lia|].
      apply IH in Hs. lia. }
    destruct (take_ident _) as [|c0 fname]; [discriminate|].
    match type of H with context [if ?b then None else _] => destruct b; [discriminate|] end.
    match type of H with context [if ?b then None else _] => destruct b; [discriminate|] end.
    injection H as <-. do 5 eexists. split; [reflexivity|].
    apply orb_false_iff in E0 as [E0 _]. apply N.eqb_neq in E0. lia.
Qed.

(** ** the text fallback while a signature is being typed (exact answer, one-line shape) *)
Lemma trim_start_ws ws rest c :
  forallb is_ws ws = true -> is_ws c = false -> trim_start (ws ++ c :: rest) = c :: rest.
Proof.
  induction ws as [|w ws IH]; intros Hw Hc; cbn [app trim_start]; [now rewrite Hc|].
  cbn [forallb] in Hw. apply andb_prop in Hw as [H1 H2]. rewrite H1. now apply IH.
Qed.
Lemma trim_end_keep a c b : is_ws c = false -> trim_end (a ++ c :: b) = a ++ c :: trim_end b.
Proof.
  intros Hc. unfold trim_end. rewrite rev_app_distr. cbn [rev]. rewrite <- app_assoc. cbn [app].
  generalize (rev b) as rb. intros rb.
  induction rb as [|x rb IH]; cbn [app trim_start].
  - rewrite Hc. cbn [rev]. now rewrite rev_involutive.
  - destruct (is_ws x) eqn:Ex; [exact IH|].
    cbn [rev]. rewrite rev_app_distr. cbn [rev]. rewrite rev_involutive, <- !app_assoc. reflexivity.
Qed.

Definition no_parens (t : text) : bool := forallb (fun c => negb ((c =? 40) || (c =? 41))) t.

Lemma scan_line_no_parens b st t : no_parens t = true -> scan_line b st t = st.
Proof.
  unfold scan_line. revert st. induction t as [|c t IH]; intros st H; [reflexivity|].
  cbn [no_parens forallb] in H. apply andb_prop in H as [Hc Ht]. apply negb_true_iff in Hc. apply orb_false_iff in Hc as [H40 H41].
  cbn [fold_left]. rewrite H40, H41. now apply IH.
Qed.
Lemma scan_line_app b st a t : scan_line b st (a ++ t) = scan_line b (scan_line b st a) t.
Proof. unfold scan_line. apply fold_left_app. Qed.

Lemma usefixtures_scan_none fixed : forall n up below,
  (forall ln, In ln up -> Text.find s_usefixtures ln = None) -> usefixtures_scan fixed up below n = None.
Proof.
  induction n as [|n IH]; intros up below H; [destruct up; reflexivity|].
  destruct up as [|line up]; [reflexivity|]. cbn [usefixtures_scan].
  rewrite (H line (or_introl eq_refl)). apply IH. intros ln Hl. apply H. now right.
Qed.

Lemma take_ident_app name rest :
  forallb ident_char name = true -> (match rest with c :: _ => ident_char c | [] => false end) = false ->
  take_ident (name ++ rest) = name.
Proof.
  intros Hn Hr. unfold take_ident. induction name as [|c name IH]; cbn [app].
  - destruct rest as [|c r]; [reflexivity|]. now rewrite Hr.
  - cbn [forallb] in Hn. apply andb_prop in Hn as [Hc Hn]. rewrite Hc. f_equal. now apply IH.
Qed.

Lemma tprefix_app_self p r : tprefix p (p ++ r) = true.
Proof. induction p as [|x p IH]; [destruct r; reflexivity|]. cbn. now rewrite N.eqb_refl, IH. Qed.
Lemma strip_prefix_app p r : strip_prefix p (p ++ r) = Some r.
Proof.
  unfold strip_prefix. rewrite tprefix_app_self. f_equal.
  induction p as [|x p IH]; [reflexivity|]. cbn [length app skipn]. exact IH.
Qed.

(** While `def test_x(a, b` is being typed on the last line of a document that does not parse —
    any indentation, anything above that does not mention usefixtures( — the fallback answers
    with the signature context of exactly that function: its name, the line, whether a
    fixture decorator stands above, the parameters typed so far and the decorator's scope. *)
Theorem typed_signature_context (content : text) (above : list text) (indent gap name ptext line : text) :
  line = indent ++ s_kw_def ++ gap ++ name ++ 40 :: ptext ->
  text_lines content = above ++ [line] ->
  (forall ln, In ln (above ++ [line]) -> Text.find s_usefixtures ln = None) ->
  forallb is_ws indent = true ->
  gap <> [] -> forallb is_ws gap = true ->
  name <> [] -> forallb ident_char name = true -> tprefix s_test name = true ->
  no_parens indent = true -> no_parens gap = true -> no_parens ptext = true ->
  text_ctx_with true false content (len above + 1)
  = Some (CSig (utf8_encode name) (len above + 1)
               (has_fixture_decorator_above (rev above))
               (declared_from_text [line])
               (if has_fixture_decorator_above (rev above)
                then Some (match scope_from_text (rev above) with Some s => s | None => 0 end) else None)).
Proof.
  intros Hline Hls Hu Hind Hgne Hgap Hne Hid Htest Hnpi Hnpg Hnpp. unfold text_ctx_with, text_ctx_gen. rewrite Hls.
  match goal with |- (if ?c then _ else _) = _ => destruct c eqn:E0 end.
  { exfalso. apply orb_prop in E0 as [E0|E0]; [apply N.eqb_eq in E0; lia|].
    apply N.ltb_lt in E0. unfold len in E0. rewrite app_length in E0. cbn [length] in E0. lia. }
  clear E0.
  assert (Hto : N.to_nat (len above + 1) = S (length above)) by (unfold len; lia).
  rewrite Hto. replace (S (length above)) with (length (above ++ [line])) by (rewrite app_length; cbn; lia).
  rewrite firstn_all, rev_app_distr. cbn [rev app].
  rewrite usefixtures_scan_none by (intros ln Hl; apply Hu; apply in_app_iff; destruct Hl as [<-|Hl]; [right; now left|left; now apply in_rev]).
  cbn [andb].
  (* the name starts with the t of test_ *)
  destruct name as [|n0 name']; [contradiction|].
  assert (Hn0 : n0 = 116).
  { cbn in Htest. apply andb_prop in Htest as [Ht _]. apply N.eqb_eq in Ht. now symmetry. }
  set (name := n0 :: name') in *.
  (* the def line is the cursor line *)
  assert (Htrim : trim line = s_kw_def ++ gap ++ name ++ 40 :: trim_end ptext).
  { unfold trim. rewrite Hline. change (s_kw_def ++ gap ++ name ++ 40 :: ptext) with (100 :: ([101; 102] ++ gap ++ name ++ 40 :: ptext)).
    rewrite (trim_start_ws indent _ 100 Hind eq_refl).
    change (100 :: [101; 102] ++ gap ++ name ++ 40 :: ptext) with (s_kw_def ++ gap ++ name ++ 40 :: ptext).
    replace (s_kw_def ++ gap ++ name ++ 40 :: ptext) with ((s_kw_def ++ gap ++ name) ++ 40 :: ptext) by (now rewrite <- !app_assoc).
    rewrite trim_end_keep by reflexivity. now rewrite <- !app_assoc. }
  (* what stands behind the keyword *)
  assert (Hkw : after_def_keyword (s_kw_def ++ gap ++ name ++ 40 :: trim_end ptext) = Some (name ++ 40 :: trim_end ptext)).
  { unfold after_def_keyword.
    assert (Ha : after_kw s_kw_async (s_kw_def ++ gap ++ name ++ 40 :: trim_end ptext) = None) by reflexivity.
    rewrite Ha. unfold after_kw. rewrite strip_prefix_app.
    destruct gap as [|g0 gap']; [contradiction|]. cbn [app].
    cbn [forallb] in Hgap. apply andb_prop in Hgap as [Hg0 Hg']. rewrite Hg0. f_equal.
    change (g0 :: gap' ++ name ++ 40 :: trim_end ptext) with ((g0 :: gap') ++ n0 :: (name' ++ 40 :: trim_end ptext)).
    apply trim_start_ws; [cbn [forallb]; now rewrite Hg0, Hg'|now rewrite Hn0]. }
  cbn [find_def_up]. rewrite Htrim, Hkw. cbv beta iota. rewrite ?Hkw. cbv beta iota.
  rewrite take_ident_app by (try exact Hid; reflexivity).
  rewrite Htest. cbn [orb negb].
  replace (len above + 1 - 1) with (len above) by lia.
  replace (N.to_nat (len above)) with (length above) by (unfold len; lia).
  rewrite firstn_app, firstn_all, Nat.sub_diag. cbn [firstn]. rewrite app_nil_r.
  replace (N.to_nat (len above - len above + 1)) with 1%nat by lia.
  rewrite skipn_app, skipn_all, Nat.sub_diag. cbn [skipn app firstn].
  (* the parenthesis scan: one unclosed '(' *)
  assert (Hscan : scan_lines [line] (mk_pscan 0 false false) = mk_pscan 1 true false).
  { cbn [scan_lines]. rewrite Hline, !scan_line_app.
    rewrite (scan_line_no_parens true _ indent Hnpi).
    rewrite (scan_line_no_parens true _ s_kw_def eq_refl).
    rewrite (scan_line_no_parens true _ gap Hnpg).
    rewrite (scan_line_no_parens true _ name).
    - change (40 :: ptext) with ([40] ++ ptext). rewrite scan_line_app.
      rewrite (scan_line_no_parens true _ ptext Hnpp). reflexivity.
    - unfold no_parens. clear -Hid. induction name as [|c nm IH]; [reflexivity|].
      cbn [forallb] in *. apply andb_prop in Hid as [Hc Hn]. rewrite (IH Hn), andb_true_r.
      apply negb_true_iff. apply orb_false_iff.
      split; apply N.eqb_neq; intros ->; discriminate Hc. }
  rewrite Hscan. cbn [ps_open ps_depth ps_closed andb negb]. cbn [Z.ltb Z.compare].
  reflexivity.
Qed.

(** ** the scope keyword of a decorator line (since fix 7721f5d): whatever occurrence [find_kw]
    returns is not the tail of a longer identifier - the scope keyword is never taken from
    inside loop_scope, my_scope ... - for every line and every pattern *)
Theorem find_kw_not_inside_identifier pat t : forall fuel from p,
  find_kw fuel pat t from = Some p ->
  exists pre, slice_to t p = Some pre /\ match rev pre with c :: _ => ident_char c = false | [] => True end.
Proof.
  induction fuel as [|f IH]; intros from p H; [discriminate|].
  cbn [find_kw] in H.
  destruct (slice_from t from) as [rest|]; [|discriminate].
  destruct (Text.find pat rest) as [k|]; [|discriminate].
  destruct (slice_to t (from + k)) as [pre|] eqn:Ep; [|discriminate].
  destruct (rev pre) as [|c r] eqn:Er.
  - injection H as <-. exists pre. split; [exact Ep|]. now rewrite Er.
  - destruct (ident_char c) eqn:Ec.
    + now apply IH in H.
    + injection H as <-. exists pre. split; [exact Ep|]. now rewrite Er.
Qed.
