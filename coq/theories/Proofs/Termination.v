(** * Termination of the import walk (C12): on EVERY import graph — self imports, mutual
    imports, diamonds, chains of any length — [get_imported_fixtures] returns within the
    fuel bound "number of known files + 2": the visited set strictly shrinks the set of
    files that can still be entered. *)
From Coq Require Import Lia.
From PLS Require Import Model.Resolve Proofs.Basics.
Local Open Scope nat_scope.

Section Term.
  Variable dk : disk.
  Variable roots : list path.
  Variable s : index.

  (** the files that have content (cached or on disk) *)
  Definition known : list path := map fst (file_cache s) ++ map fst dk.
  (** how many of them are not yet visited *)
  Definition unseen (vis : list path) : nat :=
    length (filter (fun k => negb (mem_path k vis)) known).

  Definition subset (a b : list path) : Prop := forall p, mem_path p a = true -> mem_path p b = true.

  Lemma alookup_in_keys {V} p (m : list (path * V)) c : alookup p m = Some c -> In p (map fst m).
  Proof.
    unfold alookup. destruct (find _ m) as [[k v]|] eqn:E; [|discriminate]. intros _.
    apply find_some_in in E as [Hin Hk]. cbn in Hk. apply path_eqb_eq in Hk. subst k.
    apply in_map_iff. exists (p, v). auto.
  Qed.

  Lemma content_known p c : content dk s p = Some c -> In p known.
  Proof.
    unfold content, known. intros H. apply in_or_app.
    destruct (alookup p (file_cache s)) eqn:E; [left; eapply alookup_in_keys; eauto|right; eapply alookup_in_keys; eauto].
  Qed.

  Lemma mem_path_cons p q l : mem_path p (q :: l) = path_eqb p q || mem_path p l.
  Proof. reflexivity. Qed.

  Lemma unseen_mono a b : subset a b -> unseen b <= unseen a.
  Proof.
    intros H. unfold unseen. induction known as [|k ks IH]; cbn [filter]; [lia|].
    destruct (mem_path k a) eqn:Ea; cbn [negb].
    - rewrite (H k Ea). cbn [negb]. exact IH.
    - destruct (mem_path k b); cbn [negb length]; lia.
  Qed.

  Lemma unseen_strict f vis : In f known -> mem_path f vis = false -> unseen (f :: vis) < unseen vis.
  Proof.
    intros Hin Hf. unfold unseen. induction known as [|k ks IH]; [contradiction|]. cbn [filter].
    assert (Hle : length (filter (fun k0 => negb (mem_path k0 (f :: vis))) ks)
                  <= length (filter (fun k0 => negb (mem_path k0 vis)) ks)).
    { clear IH Hin. induction ks as [|x xs IHx]; cbn [filter]; [lia|].
      rewrite mem_path_cons. destruct (mem_path x vis); cbn [negb].
      - rewrite orb_true_r. cbn [negb]. exact IHx.
      - destruct (path_eqb x f); cbn [orb negb length]; lia. }
    rewrite mem_path_cons. destruct Hin as [->|Hin].
    - rewrite path_eqb_refl, Hf. cbn [orb negb length]. lia.
    - specialize (IH Hin). destruct (mem_path k vis); cbn [negb].
      + rewrite orb_true_r. cbn [negb]. exact IH.
      + destruct (path_eqb k f); cbn [orb negb length]; lia.
  Qed.

  Lemma subset_refl a : subset a a.
  Proof. intros p H. exact H. Qed.
  Lemma subset_cons f a : subset a (f :: a).
  Proof. intros p H. rewrite mem_path_cons, H. apply orb_true_r. Qed.
  Lemma subset_trans a b c : subset a b -> subset b c -> subset a c.
  Proof. intros H1 H2 p H. apply H2, H1, H. Qed.

  (** the walk never runs out of fuel, and its visited set only grows *)
  Theorem imported_fuel_suffices : forall fuel file vis,
    unseen vis < fuel ->
    exists names vis', imported_fuel dk roots s fuel file vis = Some (names, vis') /\ subset vis vis'.
  Proof.
    induction fuel as [|fuel IH]; intros file vis Hf; [lia|].
    cbn [imported_fuel]. destruct (mem_path file vis) eqn:Ev.
    - exists [], vis. split; [reflexivity|apply subset_refl].
    - destruct (content dk s file) as [c|] eqn:Ec.
      2:{ exists [], (file :: vis). split; [reflexivity|apply subset_cons]. }
      destruct (imp_hit s file c) as [nm|].
      { exists nm, (file :: vis). split; [reflexivity|apply subset_cons]. }
      destruct (negb (c_ok c)).
      { exists [], (file :: vis). split; [reflexivity|apply subset_cons]. }
      pose proof (unseen_strict file vis (content_known file c Ec) Ev) as Hs.
      (* the fold over the import edges keeps: Some, visited set above (file :: vis) *)
      assert (F : forall edges acc_names acc_vis,
                 subset (file :: vis) acc_vis ->
                 exists names vis',
                   fold_left
                     (fun (acc : option (list string * list path)) (e : edge) =>
                        match acc with
                        | None => None
                        | Some (names, vis0) =>
                            match resolve_edge dk s roots file e with
                            | None => Some (names, vis0)
                            | Some tgt =>
                                match e_kind e with
                                | Star =>
                                    match imported_fuel dk roots s fuel tgt vis0 with
                                    | None => None
                                    | Some (sub, vis') => Some (names ++ file_def_names s tgt ++ sub, vis')
                                    end
                                | Names ns => Some (names ++ filter (has_def s) ns, vis0)
                                end
                            end
                        end) edges (Some (acc_names, acc_vis)) = Some (names, vis')
                   /\ subset (file :: vis) vis').
      { induction edges as [|e edges IHe]; intros an av Hsub; cbn [fold_left].
        - exists an, av. split; [reflexivity|exact Hsub].
        - destruct (resolve_edge dk s roots file e) as [tgt|]; [|apply IHe; exact Hsub].
          destruct (e_kind e); [|apply IHe; exact Hsub].
          assert (Hav : unseen av < fuel).
          { pose proof (unseen_mono (file :: vis) av Hsub). lia. }
          destruct (IH tgt av Hav) as (sub & v' & Hr & Hs2). rewrite Hr.
          apply IHe. eapply subset_trans; eauto. }
      destruct (F (c_edges c) [] (file :: vis) (subset_refl _)) as (names & v' & Hr & Hs3).
      exists names, v'. split; [exact Hr|]. eapply subset_trans; [apply subset_cons|exact Hs3].
  Qed.

  Lemma unseen_le_known vis : unseen vis <= length known.
  Proof.
    unfold unseen. induction known as [|k ks IH]; cbn [filter length]; [lia|].
    destruct (negb (mem_path k vis)); cbn [length]; lia.
  Qed.

  Theorem imported_never_out_of_fuel file :
    imported_fuel dk roots s (enough_fuel dk s) file [] <> None.
  Proof.
    assert (H : unseen [] < enough_fuel dk s).
    { pose proof (unseen_le_known []). unfold enough_fuel, known in *. rewrite app_length, !map_length in H. lia. }
    destruct (imported_fuel_suffices (enough_fuel dk s) file [] H) as (n & v & Hr & _). rewrite Hr. discriminate.
  Qed.
End Term.
