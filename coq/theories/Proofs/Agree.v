(** * Proofs/Agree: the per-file view (completion, inlay hints, hover listing) and
    go-to-definition denote the same definition for every name.
    [compute_available_fixtures] builds a list by priority stages; [find_closest_definition]
    walks the same stages for one name.  Each stage is a fold "for every candidate name not
    yet present, append what this stage picks"; looking a name up in the result is the
    first stage that picks something. *)
From PLS Require Import Check.C05 Proofs.Basics Proofs.Available.
From Coq Require Import Permutation.

Definition has_name (n : string) (acc : list fdef) : bool := existsb (fun d => String.eqb (d_name d) n) acc.

Lemma lookup_none_iff n acc : lookup_av n acc = None <-> has_name n acc = false.
Proof.
  unfold lookup_av, has_name. induction acc as [|d acc IH]; cbn [find existsb]; [tauto|].
  destruct (String.eqb (d_name d) n); cbn [orb]; [split; discriminate|exact IH].
Qed.

Lemma lookup_app n acc d :
  lookup_av n (acc ++ [d]) = match lookup_av n acc with Some x => Some x | None => if String.eqb (d_name d) n then Some d else None end.
Proof.
  unfold lookup_av. induction acc as [|x acc IH]; cbn [app find]; [destruct (String.eqb (d_name d) n); reflexivity|].
  destruct (String.eqb (d_name x) n); [reflexivity|exact IH].
Qed.

(** one stage *)
Definition stage (pick : string -> option fdef) (names : list string) (acc : list fdef) : list fdef :=
  fold_left (fun acc n => if has_name n acc then acc else match pick n with Some d => acc ++ [d] | None => acc end) names acc.

Lemma stage_lookup pick n : (forall m d, pick m = Some d -> d_name d = m) ->
  forall names acc,
    lookup_av n (stage pick names acc) =
    match lookup_av n acc with
    | Some d => Some d
    | None => if mem_str n names then pick n else None
    end.
Proof.
  intros Hp. induction names as [|m names IH]; intros acc.
  - unfold stage. cbn [fold_left mem_str memb existsb]. destruct (lookup_av n acc); reflexivity.
  - change (stage pick (m :: names) acc)
      with (stage pick names (if has_name m acc then acc else match pick m with Some d => acc ++ [d] | None => acc end)).
    rewrite IH. clear IH.
    unfold mem_str, memb. cbn [existsb]. fold (memb String.eqb n names). fold (mem_str n names).
    destruct (has_name m acc) eqn:Eh.
    + destruct (lookup_av n acc) eqn:El; [reflexivity|].
      destruct (String.eqb n m) eqn:Enm; [|reflexivity]. apply String.eqb_eq in Enm. subst m.
      apply lookup_none_iff in El. congruence.
    + destruct (pick m) as [d|] eqn:Ep.
      * rewrite lookup_app. destruct (lookup_av n acc) eqn:El; [reflexivity|].
        rewrite (Hp m d Ep). rewrite String.eqb_sym. destruct (String.eqb n m) eqn:Enm; cbn [orb].
        -- apply String.eqb_eq in Enm. subst m. now rewrite Ep.
        -- reflexivity.
      * destruct (lookup_av n acc) eqn:El; [reflexivity|].
        destruct (String.eqb n m) eqn:Enm; cbn [orb]; [|reflexivity].
        apply String.eqb_eq in Enm. subst m. rewrite Ep. now destruct (mem_str n names).
Qed.

(** string dedup keeps membership *)
Lemma mem_str_dedup n l : mem_str n (dedup String.eqb l) = mem_str n l.
Proof.
  apply Bool.eq_iff_eq_true. rewrite !mem_str_in.
  induction l as [|x l IH]; [tauto|]. cbn [dedup]. split.
  - intros [<-|H]; [now left|]. apply filter_In in H as [H _]. right. now apply IH.
  - intros [<-|H]; [now left|]. destruct (String.eqb x n) eqn:E.
    + apply String.eqb_eq in E. now left.
    + right. apply filter_In. split; [now apply IH|now rewrite E].
Qed.

Section Agree.
  Variable dk : disk.
  Variable roots : list path.
  Variable s : index.

  Lemma def_names_mem n : mem_str n (def_names s) = match defs_named s n with [] => false | _ => true end.
  Proof.
    unfold def_names. rewrite mem_str_dedup. unfold defs_named.
    induction (defs s) as [|d l IH]; [reflexivity|]. unfold mem_str, memb in *. cbn [map existsb filter].
    rewrite String.eqb_sym. destruct (String.eqb (d_name d) n); cbn [orb]; [reflexivity|exact IH].
  Qed.

  (** the stages as instances *)
  Definition pick_last (m : path) (n : string) : option fdef :=
    max_by_key d_line (filter (fun d => path_eqb (d_file d) m) (defs_named s n)).
  Definition pick_first (p : fdef -> bool) (n : string) : option fdef := find p (defs_named s n).
  Definition pick_head (n : string) : option fdef := match defs_named s n with d :: _ => Some d | [] => None end.

  Lemma pick_last_name m n d : pick_last m n = Some d -> d_name d = n.
  Proof. intros H. apply max_by_key_in in H. apply filter_In in H as [H _]. eapply defs_named_name; eauto. Qed.
  Lemma pick_first_name p n d : pick_first p n = Some d -> d_name d = n.
  Proof. intros H. apply find_some in H as [H _]. eapply defs_named_name; eauto. Qed.
  Lemma pick_head_name n d : pick_head n = Some d -> d_name d = n.
  Proof.
    unfold pick_head. destruct (defs_named s n) as [|x l] eqn:E; [discriminate|]. intros [= <-].
    apply (defs_named_name s). rewrite E. now left.
  Qed.

  Lemma add_last_stage m acc : add_last s m acc = stage (pick_last m) (def_names s) acc.
  Proof. reflexivity. Qed.
  Lemma add_first_stage p acc : add_first s p acc = stage (pick_first p) (def_names s) acc.
  Proof. reflexivity. Qed.
  Lemma add_imported_stage c acc :
    add_imported dk roots s c acc = if in_cache s c then stage pick_head (dedup String.eqb (imported dk roots s c)) acc else acc.
  Proof.
    unfold add_imported. destruct (in_cache s c); [|reflexivity]. unfold stage, pick_head.
    revert acc. induction (dedup String.eqb (imported dk roots s c)) as [|n l IH]; intros acc; [reflexivity|].
    cbn [fold_left]. rewrite IH. unfold has_name. f_equal.
    destruct (existsb (fun d => String.eqb (d_name d) n) acc); [reflexivity|]. destruct (defs_named s n); reflexivity.
  Qed.

  (** picks over [def_names] need no membership test: a pick comes from [defs_named] *)
  Lemma stage_def_names pick n acc :
    (forall m d, pick m = Some d -> d_name d = m) ->
    (defs_named s n = [] -> pick n = None) ->
    lookup_av n (stage pick (def_names s) acc) = match lookup_av n acc with Some d => Some d | None => pick n end.
  Proof.
    intros Hp Hn. rewrite (stage_lookup pick n Hp). destruct (lookup_av n acc); [reflexivity|].
    rewrite def_names_mem. destruct (defs_named s n) eqn:E; [now rewrite Hn|reflexivity].
  Qed.

  Lemma pick_last_nil m n : defs_named s n = [] -> pick_last m n = None.
  Proof. unfold pick_last. now intros ->. Qed.
  Lemma pick_first_nil p n : defs_named s n = [] -> pick_first p n = None.
  Proof. unfold pick_first. now intros ->. Qed.

  (** the conftest walk *)
  Definition walk_step (n : string) (dir : path) : option fdef :=
    let c := conftest_py :: dir in
    match pick_last c n with
    | Some d => Some d
    | None => if in_cache s c && is_imported dk roots s n c then pick_head n else None
    end.

  Lemma walk_lookup n : forall dirs acc,
    lookup_av n (fold_left (fun acc dir => let c := conftest_py :: dir in add_imported dk roots s c (add_last s c acc)) dirs acc)
    = match lookup_av n acc with Some d => Some d | None => first_some (walk_step n) dirs end.
  Proof.
    induction dirs as [|dir dirs IH]; intros acc; cbn [fold_left first_some].
    - destruct (lookup_av n acc); reflexivity.
    - rewrite IH. clear IH. cbv zeta. rewrite add_imported_stage, add_last_stage.
      unfold walk_step. cbv zeta.
      destruct (in_cache s (conftest_py :: dir)) eqn:Ec; cbn [andb].
      + rewrite (stage_lookup pick_head n pick_head_name).
        rewrite (stage_def_names (pick_last (conftest_py :: dir)) n acc (pick_last_name _) (pick_last_nil _ n)).
        destruct (lookup_av n acc); [reflexivity|].
        destruct (pick_last (conftest_py :: dir) n); [reflexivity|].
        rewrite mem_str_dedup. unfold is_imported.
        destruct (mem_str n (imported dk roots s (conftest_py :: dir))); [|reflexivity].
        destruct (pick_head n); reflexivity.
      + rewrite (stage_def_names (pick_last (conftest_py :: dir)) n acc (pick_last_name _) (pick_last_nil _ n)).
        destruct (lookup_av n acc); [reflexivity|].
        destruct (pick_last (conftest_py :: dir) n); reflexivity.
  Qed.

  (** sorting by name does not change what a name denotes *)
  Lemma lookup_perm n l l' : ND l -> Permutation l l' -> lookup_av n l = lookup_av n l'.
  Proof.
    intros Hnd Hp. induction Hp as [|x l l' Hp IH|x y l|l l' l'' H1 IH1 H2 IH2].
    - reflexivity.
    - unfold lookup_av. cbn [find]. destruct (String.eqb (d_name x) n); [reflexivity|].
      apply IH. unfold ND in *. cbn in Hnd. now inversion Hnd.
    - unfold lookup_av. cbn [find].
      destruct (String.eqb (d_name y) n) eqn:Ey, (String.eqb (d_name x) n) eqn:Ex; try reflexivity.
      apply String.eqb_eq in Ey, Ex. exfalso. unfold ND in Hnd. cbn in Hnd. inversion Hnd as [|? ? Hin _]. subst.
      apply Hin. left. congruence.
    - rewrite IH1; [|exact Hnd]. apply IH2. unfold ND in *. eapply Permutation_NoDup; [apply Permutation_map; exact H1|exact Hnd].
  Qed.

  (** go-to-definition's cascade, for the filter that accepts everything *)
  Lemma last_binding_true dn m : last_binding (fun _ => true) dn m = max_by_key d_line (filter (fun d => path_eqb (d_file d) m) dn).
  Proof. unfold last_binding. destruct (max_by_key _ _); reflexivity. Qed.

  Definition conftests_known (F : path) : Prop :=
    forall dir, In dir (ancestors (tl F)) -> disk_file dk (conftest_py :: dir) = true -> in_cache s (conftest_py :: dir) = true.

  Lemma first_some_ext {A B} (f g : A -> option B) l : (forall x, In x l -> f x = g x) -> first_some f l = first_some g l.
  Proof.
    induction l as [|x l IH]; intros H; [reflexivity|]. cbn [first_some]. rewrite (H x (or_introl eq_refl)).
    destruct (g x); [reflexivity|]. apply IH. intros y Hy. apply H. now right.
  Qed.

  Lemma walk_none n dirs : defs_named s n = [] -> first_some (walk_step n) dirs = None.
  Proof.
    intros Edn. induction dirs as [|x l IH]; [reflexivity|]. cbn [first_some].
    assert (E : walk_step n x = None); [|now rewrite E].
    unfold walk_step, pick_last, pick_head. rewrite Edn. cbn [filter max_by_key].
    now destruct (in_cache s (conftest_py :: x) && is_imported dk roots s n (conftest_py :: x)).
  Qed.

  (** what a name denotes in the per-file view: the first stage that picks something *)
  Definition cascade (f : string) (dir : path) (n : string) : option fdef :=
    match pick_last (f :: dir) n with
    | Some d => Some d
    | None =>
        match first_some (walk_step n) (ancestors dir) with
        | Some d => Some d
        | None =>
            match pick_first (fun d => d_plugin d && negb (d_third d)) n with
            | Some d => Some d
            | None => pick_first d_third n
            end
        end
    end.

  Theorem available_lookup_cascade f dir n :
    lookup_av n (available_cold dk roots s (f :: dir)) = cascade f dir n.
  Proof.
    set (F := f :: dir).
    assert (NDall : forall acc, ND acc ->
              ND (add_first s d_third (add_first s (fun d => d_plugin d && negb (d_third d))
                    (fold_left (fun acc dir => let c := conftest_py :: dir in add_imported dk roots s c (add_last s c acc)) (ancestors dir) acc)))).
    { intros acc H. apply add_first_ND, add_first_ND.
      revert acc H. induction (ancestors dir) as [|x l IH]; intros acc H; cbn [fold_left]; [exact H|].
      apply IH. cbv zeta. apply add_imported_ND, add_last_ND, H. }
    unfold available_cold. fold F. unfold F at 2. cbv zeta.
    rewrite <- (lookup_perm n _ _ (NDall _ (add_last_ND s F [] (NoDup_nil _))) (Permutation_sym (isort_perm _ _))).
    rewrite !add_first_stage.
    rewrite (stage_def_names (pick_first d_third) n _ (pick_first_name _) (pick_first_nil _ n)).
    rewrite (stage_def_names (pick_first _) n _ (pick_first_name _) (pick_first_nil _ n)).
    rewrite walk_lookup. rewrite add_last_stage.
    rewrite (stage_def_names (pick_last F) n [] (pick_last_name _) (pick_last_nil _ n)).
    cbn [lookup_av find]. unfold cascade. fold F.
    destruct (pick_last F n); [reflexivity|].
    destruct (first_some (walk_step n) (ancestors dir)); reflexivity.
  Qed.

  Theorem available_agrees_with_goto f dir n :
    conftests_known (f :: dir) ->
    lookup_av n (available_cold dk roots s (f :: dir)) = closest dk roots s (f :: dir) n.
  Proof.
    intros Hk. rewrite available_lookup_cascade. unfold cascade. set (F := f :: dir).
    unfold closest, closest_with. unfold F at 3.
    destruct (defs_named s n) as [|d0 dn0] eqn:Edn.
    { (* no definition of that name *)
      unfold pick_last, pick_first. rewrite Edn. cbn [filter max_by_key find].
      pose proof (walk_none n (ancestors dir) Edn) as W.
      now rewrite W. }
    rewrite <- Edn. rewrite last_binding_true. fold (pick_last F n).
    destruct (pick_last F n) as [d|]; [reflexivity|].
    assert (W : first_some (walk_step n) (ancestors dir) = first_some (conftest_step dk roots s (fun _ => true) (defs_named s n) n) (ancestors dir)).
    { apply first_some_ext. intros x Hx. unfold walk_step, conftest_step. cbv zeta. rewrite last_binding_true.
      fold (pick_last (conftest_py :: x) n). destruct (pick_last (conftest_py :: x) n); [reflexivity|].
      assert (Hkn : (disk_file dk (conftest_py :: x) || in_cache s (conftest_py :: x)) = in_cache s (conftest_py :: x)).
      { destruct (disk_file dk (conftest_py :: x)) eqn:Ed; [|reflexivity]. cbn [orb]. symmetry. apply Hk; [exact Hx|exact Ed]. }
      rewrite Hkn. destruct (in_cache s (conftest_py :: x) && is_imported dk roots s n (conftest_py :: x)); [|reflexivity].
      unfold pick_head. rewrite Edn. reflexivity. }
    rewrite W. destruct (first_some (conftest_step dk roots s (fun _ => true) (defs_named s n) n) (ancestors dir)) eqn:Efs; [reflexivity|].
    unfold pick_first.
    assert (E1 : forall l, find (fun d => d_plugin d && negb (d_third d) && true) l = find (fun d => d_plugin d && negb (d_third d)) l).
    { induction l as [|x l IH]; [reflexivity|]. cbn [find]. rewrite andb_true_r, IH. reflexivity. }
    assert (E2 : forall l, find (fun d => d_third d && true) l = find d_third l).
    { induction l as [|x l IH]; [reflexivity|]. cbn [find]. rewrite andb_true_r, IH. reflexivity. }
    rewrite E1, E2. reflexivity.
  Qed.
End Agree.
