(** * What [extract_word_at_position] answers (string_utils.rs), beyond not panicking:
    on EVERY line (any code points, any widths) and every character index it answers
    exactly the maximal run of word characters around that index - or nothing when the
    index is past the line or on a non-word character.  The byte arithmetic of the real
    function (char_indices offsets, the end offset of the last character, the byte slice)
    is in the model; the theorem says it always cuts at the run's two boundaries. *)
From Coq Require Import Arith Lia.
From PLS Require Import Model.TextFns Proofs.TextFns.
Local Open Scope N_scope.

Section WordSpec.
  Variable wordc : cp -> bool.

  (** the run [s, e) of [line] around index [ch] *)
  Record run_of (line : text) (ch s e : N) : Prop := {
    run_lo : s <= ch;
    run_hi : ch < e;
    run_in : e <= len line;
    run_word : forall k c, s <= k -> k < e -> nth_error line (N.to_nat k) = Some c -> wordc c = true;
    run_left : s = 0 \/ exists c, nth_error line (N.to_nat (s - 1)) = Some c /\ wordc c = false;
    run_right : e = len line \/ exists c, nth_error line (N.to_nat e) = Some c /\ wordc c = false
  }.

  Lemma idx_ci line i pc : idx (char_indices line) i = Ok pc -> nth_error line (N.to_nat i) = Some (snd pc).
  Proof.
    unfold idx, nth_opt, char_indices. destruct (nth_error _ _) eqn:E; [|discriminate].
    intros H. injection H as <-. now destruct (char_indices_at_nth line 0 _ _ E).
  Qed.

  Lemma word_start_spec line : forall fuel i r,
    word_start wordc fuel (char_indices line) i = Ok r ->
    r <= i /\
    (forall k c, r <= k -> k < i -> nth_error line (N.to_nat k) = Some c -> wordc c = true) /\
    (r = 0 \/ exists c, nth_error line (N.to_nat (r - 1)) = Some c /\ wordc c = false).
  Proof.
    induction fuel as [|f IH]; intros i r H; [discriminate|].
    cbn [word_start] in H. destruct (0 <? i) eqn:E.
    - unfold usub in H. destruct (1 <=? i) eqn:E1; [|lia]. cbn [rbind] in H.
      destruct (idx (char_indices line) (i - 1)) as [pc| |] eqn:Ei; try discriminate. cbn [rbind] in H.
      apply idx_ci in Ei.
      destruct (wordc (snd pc)) eqn:Ew.
      + apply IH in H as [H1 [H2 H3]]. split; [lia|]. split; [|exact H3].
        intros k c Hk1 Hk2 Hn. destruct (N.eq_dec k (i - 1)) as [->|Hne].
        * rewrite Ei in Hn. injection Hn as <-. exact Ew.
        * apply (H2 k c); [lia|lia|exact Hn].
      + injection H as <-. split; [lia|]. split; [intros k c ? ?; lia|].
        right. exists (snd pc). split; assumption.
    - injection H as <-. split; [lia|]. split; [intros k c ? ?; lia|]. left. lia.
  Qed.

  Lemma word_end_spec line : forall fuel i r,
    i <= len line ->
    word_end wordc fuel (char_indices line) i = Ok r ->
    i <= r /\ r <= len line /\
    (forall k c, i <= k -> k < r -> nth_error line (N.to_nat k) = Some c -> wordc c = true) /\
    (r = len line \/ exists c, nth_error line (N.to_nat r) = Some c /\ wordc c = false).
  Proof.
    assert (Hlen : len (char_indices line) = len line).
    { unfold len, char_indices. now rewrite char_indices_length. }
    induction fuel as [|f IH]; intros i r Hi H; [discriminate|].
    cbn [word_end] in H. rewrite Hlen in H. destruct (i <? len line) eqn:E.
    - destruct (idx (char_indices line) i) as [pc| |] eqn:Ei; try discriminate. cbn [rbind] in H.
      apply idx_ci in Ei.
      destruct (wordc (snd pc)) eqn:Ew.
      + apply IH in H as [H1 [H2 [H3 H4]]]; [|lia]. split; [lia|]. split; [exact H2|]. split; [|exact H4].
        intros k c Hk1 Hk2 Hn. destruct (N.eq_dec k i) as [->|Hne].
        * rewrite Ei in Hn. injection Hn as <-. exact Ew.
        * apply (H3 k c); [lia|lia|exact Hn].
      + injection H as <-. split; [lia|]. split; [lia|]. split; [intros k c ? ?; lia|].
        right. exists (snd pc). split; assumption.
    - injection H as <-. split; [lia|]. split; [lia|]. split; [intros k c ? ?; lia|]. left. lia.
  Qed.

  Lemma slice_prefix_sums_eq s a b :
    (a <= b)%nat -> slice s (blen (firstn a s)) (blen (firstn b s)) = Some (skipn a (firstn b s)).
  Proof.
    intros H. unfold slice.
    pose proof (blen_firstn_mono s a b H).
    destruct (blen (firstn a s) <=? blen (firstn b s)) eqn:E; [|lia].
    rewrite slice_to_prefix.
    rewrite <- (firstn_firstn_le s a b H).
    now rewrite slice_from_prefix.
  Qed.

  (** the answer, for every line and every index *)
  Theorem extract_word_is_the_maximal_run : forall line ch,
    match extract_word_at_position wordc line ch with
    | Ok None => len line <= ch \/ exists c, nth_error line (N.to_nat ch) = Some c /\ wordc c = false
    | Ok (Some w) => exists s e, run_of line ch s e /\ w = skipn (N.to_nat s) (firstn (N.to_nat e) line)
    | _ => False
    end.
  Proof.
    intros line ch. unfold extract_word_at_position.
    set (cis := char_indices line).
    assert (Hlen : len cis = len line).
    { unfold len, cis, char_indices. now rewrite char_indices_length. }
    destruct (len cis <=? ch) eqn:E; [left; lia|].
    destruct (idx_lt cis ch ltac:(lia)) as [pc Hpc]. rewrite Hpc. cbn [rbind].
    pose proof (idx_ci line ch pc Hpc) as Hc.
    destruct (wordc (snd pc)) eqn:Ew; cbn [negb]; [|right; eauto].
    destruct (word_start_ok wordc cis (S (length cis)) ch ltac:(lia) ltac:(unfold len in *; lia)) as [si [Hsi Hsi2]].
    rewrite Hsi. cbn [rbind].
    destruct (word_end_ok wordc cis (S (length cis)) (ch + 1) ltac:(lia) ltac:(unfold len in *; lia)) as [ei [Hei [Hei2 Hei3]]].
    rewrite Hei. cbn [rbind].
    apply word_start_spec in Hsi as [S1 [S2 S3]].
    apply word_end_spec in Hei as [F1 [F2 [F3 F4]]]; [|lia].
    destruct (idx_lt cis si ltac:(lia)) as [sp Hsp]. rewrite Hsp. cbn [rbind].
    apply (idx_char_indices wordc) in Hsp as [Hsp _].
    assert (exists eb, (if ei <? len cis then idx cis ei >>= fun ep => Ok (fst ep) else Ok (blen line)) = Ok eb
                       /\ eb = blen (firstn (N.to_nat ei) line)) as [eb [Heb Heb2]].
    { destruct (ei <? len cis) eqn:E2.
      - destruct (idx_lt cis ei ltac:(lia)) as [ep Hep]. rewrite Hep. cbn [rbind].
        apply (idx_char_indices wordc) in Hep as [Hep _]. exists (fst ep). split; [reflexivity|exact Hep].
      - exists (blen line). split; [reflexivity|].
        rewrite firstn_all2; [reflexivity|]. unfold len in *. lia. }
    rewrite Heb. cbn [rbind]. rewrite Hsp, Heb2.
    rewrite (slice_prefix_sums_eq line (N.to_nat si) (N.to_nat ei) ltac:(lia)). cbn [of_opt rbind].
    exists si, ei. split; [|reflexivity].
    constructor; try assumption; try lia.
    intros k c Hk1 Hk2 Hn.
    destruct (N.lt_ge_cases k ch) as [L|G]; [now apply (S2 k c)|].
    destruct (N.eq_dec k ch) as [->|Hne].
    - rewrite Hc in Hn. injection Hn as <-. exact Ew.
    - apply (F3 k c); [lia|exact Hk2|exact Hn].
  Qed.

  (** two indices inside one run get the same answer: the word does not depend on where
      in it the cursor stands *)
  Lemma run_unique line ch s e s' e' : run_of line ch s e -> run_of line ch s' e' -> s = s' /\ e = e'.
  Proof.
    intros [L1 H1 I1 W1 Lf1 R1] [L2 H2 I2 W2 Lf2 R2].
    split.
    - destruct (N.lt_trichotomy s s') as [Hlt|[->|Hgt]]; [|reflexivity|]; exfalso.
      + destruct Lf2 as [->|[c [Hn Hw]]]; [lia|].
        rewrite (W1 (s' - 1) c) in Hw; [discriminate|lia|lia|exact Hn].
      + destruct Lf1 as [->|[c [Hn Hw]]]; [lia|].
        rewrite (W2 (s - 1) c) in Hw; [discriminate|lia|lia|exact Hn].
    - destruct (N.lt_trichotomy e e') as [Hlt|[->|Hgt]]; [|reflexivity|]; exfalso.
      + destruct R1 as [->|[c [Hn Hw]]]; [lia|].
        rewrite (W2 e c) in Hw; [discriminate|lia|lia|exact Hn].
      + destruct R2 as [->|[c [Hn Hw]]]; [lia|].
        rewrite (W1 e' c) in Hw; [discriminate|lia|lia|exact Hn].
  Qed.

  Theorem extract_word_same_inside_the_word : forall line ch ch' w s e,
    extract_word_at_position wordc line ch = Ok (Some w) ->
    run_of line ch s e -> s <= ch' -> ch' < e ->
    extract_word_at_position wordc line ch' = Ok (Some w).
  Proof.
    intros line ch ch' w s e H R Hs He.
    pose proof (extract_word_is_the_maximal_run line ch) as P. rewrite H in P.
    destruct P as [s0 [e0 [R0 ->]]].
    destruct (run_unique _ _ _ _ _ _ R R0) as [<- <-].
    assert (R' : run_of line ch' s e) by (destruct R; constructor; assumption).
    pose proof (extract_word_is_the_maximal_run line ch') as P.
    destruct (extract_word_at_position wordc line ch') as [[w'|]| |]; try contradiction.
    - destruct P as [s1 [e1 [R1 ->]]]. destruct (run_unique _ _ _ _ _ _ R' R1) as [<- <-]. reflexivity.
    - exfalso. destruct P as [P|[c [Hn Hw]]].
      + destruct R'. lia.
      + destruct R' as [? ? ? W ? ?]. rewrite (W ch' c) in Hw; [discriminate|lia|lia|exact Hn].
  Qed.
End WordSpec.

(** seeded change S87 refuted: behind a two-byte separator ([«], U+00AB) the "separator
    offset plus one" start lies inside the separator and the slice panics, where the code
    answers the word *)
Definition lower (c : cp) : bool := (97 <=? c) && (c <=? 122).
Definition line_s87 : text := [171; 100; 98].        (* «db *)
Lemma extract_word_sep_plus_one_refuted :
  extract_word_sep_plus_one lower line_s87 1 = Panic /\
  extract_word_at_position lower line_s87 1 = Ok (Some [100; 98]) /\
  extract_word_sep_plus_one lower [40; 100; 98] 1 = Ok (Some [100; 98]).
Proof. vm_compute. repeat split. Qed.
