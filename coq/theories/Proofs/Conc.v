(** * Isolation of concurrent analyses of distinct files (C09).
    For ANY number of analysis threads on distinct files, ANY initial map without empty
    vectors, ANY key lists and items (names may be shared freely), and ANY interleaving of
    their atomic operations: at quiescence every file's slice of every vector is what that
    file's analysis alone determines, every other file's slice is untouched, and no key
    is left with an empty vector. *)
From Coq Require Import Lia.
From PLS Require Import Model.Conc.

Section Proof.
  Variables (key file item : Type).
  Variable key_eqb : key -> key -> bool.
  Variable file_eqb : file -> file -> bool.
  Hypothesis key_eqb_eq : forall a b, key_eqb a b = true <-> a = b.
  Hypothesis file_eqb_eq : forall a b, file_eqb a b = true <-> a = b.

  Notation entry := (entry file item).
  Notation mmap := (mmap key file item).
  Notation pend := (pend key item).
  Notation thr := (thr key file item).
  Notation slice := (slice key file item file_eqb).
  Notation of_file := (of_file file item file_eqb).
  Notation not_of_file := (not_of_file file item file_eqb).
  Notation upd := (upd key file item key_eqb).
  Notation tstep := (tstep key file item key_eqb file_eqb).
  Notation step := (step key file item key_eqb file_eqb).
  Notation steps := (steps key file item key_eqb file_eqb).
  Notation pushed_at := (pushed_at key file item key_eqb).

  Lemma key_eqb_refl k : key_eqb k k = true.
  Proof. now apply key_eqb_eq. Qed.
  Lemma file_eqb_refl f : file_eqb f f = true.
  Proof. now apply file_eqb_eq. Qed.
  Lemma key_eqb_neq a b : a <> b -> key_eqb a b = false.
  Proof. intros H. destruct (key_eqb a b) eqn:E; [apply key_eqb_eq in E; contradiction|reflexivity]. Qed.
  Lemma file_eqb_neq a b : a <> b -> file_eqb a b = false.
  Proof. intros H. destruct (file_eqb a b) eqn:E; [apply file_eqb_eq in E; contradiction|reflexivity]. Qed.

  Definition memk (k : key) (l : list key) : bool := existsb (key_eqb k) l.

  Lemma upd_same m k v : upd m k v k = v.
  Proof. unfold upd. now rewrite key_eqb_refl. Qed.
  Lemma upd_other m k v k' : k' <> k -> upd m k v k' = m k'.
  Proof. intros H. unfold upd. now rewrite key_eqb_neq. Qed.

  (** ** filtering facts *)
  Lemma of_file_not_of_file_same F l : of_file F (not_of_file F l) = [].
  Proof.
    unfold Conc.of_file, Conc.not_of_file.
    induction l as [|e l IH]; cbn [filter]; [reflexivity|].
    destruct (file_eqb (fst e) F) eqn:E; cbn [negb filter]; [exact IH|]. now rewrite E.
  Qed.
  Lemma of_file_not_of_file_other F H l : H <> F -> of_file H (not_of_file F l) = of_file H l.
  Proof.
    intros Hn. unfold Conc.of_file, Conc.not_of_file.
    induction l as [|e l IH]; cbn [filter]; [reflexivity|].
    destruct (file_eqb (fst e) F) eqn:E; cbn [negb filter].
    - apply file_eqb_eq in E. rewrite E, (file_eqb_neq F H) by congruence. exact IH.
    - now rewrite IH.
  Qed.
  Lemma of_file_app F a b : of_file F (a ++ b) = of_file F a ++ of_file F b.
  Proof. unfold Conc.of_file. apply filter_app. Qed.

  (** ** analyses and their stages *)
  Record analysis := mk_analysis { a_file : file; a_L : list key; a_items : list (key * item) }.
  Record stage := mk_stage {
    s_a : analysis;
    s_L1 : list key; s_L2 : list key;               (* keys already cleaned / still to clean *)
    s_i1 : list (key * item); s_i2 : list (key * item);   (* items already pushed / still to push *)
    s_rm : option key }.                             (* a pending remove_if *)

  Definition push_of (kx : key * item) : pend := PPush key item (fst kx) (snd kx).
  Definition pend_of (st : stage) : list pend :=
    (match s_rm st with Some k => [PRemoveIfEmpty key item k] | None => [] end)
    ++ map (PRetain key item) (s_L2 st) ++ map push_of (s_i2 st).
  Definition thr_of (st : stage) : thr := mk_thr key file item (a_file (s_a st)) (pend_of st).

  Definition stage_ok (st : stage) : Prop :=
    a_L (s_a st) = s_L1 st ++ s_L2 st /\ a_items (s_a st) = s_i1 st ++ s_i2 st /\
    ((s_L2 st <> [] \/ s_rm st <> None) -> s_i1 st = []).

  Definition init_stage (a : analysis) : stage := mk_stage a [] (a_L a) [] (a_items a) None.

  Variable m0 : mmap.

  Definition slice_inv (m : mmap) (st : stage) : Prop :=
    forall k, slice (a_file (s_a st)) m k
              = (if memk k (s_L1 st) then [] else slice (a_file (s_a st)) m0 k)
                ++ pushed_at (a_file (s_a st)) (s_i1 st) k.

  Definition files_of (sts : list stage) : list file := map (fun st => a_file (s_a st)) sts.

  Record inv (m : mmap) (sts : list stage) : Prop := mk_inv {
    inv_ok : forall st, In st sts -> stage_ok st;
    inv_slice : forall st, In st sts -> slice_inv m st;
    inv_foreign : forall G, ~ In G (files_of sts) -> forall k, slice G m k = slice G m0 k;
    inv_empty : forall k, m k = Some [] -> exists st, In st sts /\ s_rm st = Some k }.

  (** ** list bookkeeping *)
  Notation replace_nth := (@Conc.replace_nth).

  Lemma map_replace_nth {A B} (f : A -> B) i x l : map f (replace_nth A i x l) = replace_nth B i (f x) (map f l).
  Proof. revert i. induction l as [|y l IH]; intros i; destruct i; cbn; try reflexivity. now rewrite IH. Qed.

  Lemma nth_error_map_some {A B} (f : A -> B) l i y :
    nth_error (map f l) i = Some y -> exists x, nth_error l i = Some x /\ f x = y.
  Proof.
    revert i. induction l as [|a l IH]; intros i H; destruct i; cbn in *; try discriminate.
    - injection H as <-. eauto.
    - now apply IH.
  Qed.

  Lemma replace_nth_same_key {A B} (f : A -> B) i x y l :
    nth_error l i = Some y -> f x = f y -> map f (replace_nth A i x l) = map f l.
  Proof.
    revert i. induction l as [|a l IH]; intros i Hn Hf; destruct i; cbn in *; try discriminate.
    - injection Hn as ->. now rewrite Hf.
    - now rewrite (IH i Hn Hf).
  Qed.

  Lemma in_replace_nth_nodup {A B} (f : A -> B) l : forall i a b x,
    NoDup (map f l) -> nth_error l i = Some a ->
    In x (replace_nth A i b l) -> x = b \/ (In x l /\ f x <> f a).
  Proof.
    induction l as [|y l IH]; intros i a b x Hnd Hn Hin; [destruct i; discriminate|].
    cbn in Hnd. inversion Hnd as [|? ? Hnotin Hnd']; subst.
    destruct i as [|i]; cbn in Hn, Hin.
    - injection Hn as ->. destruct Hin as [<-|Hin]; [now left|]. right. split; [now right|].
      intros E. apply Hnotin. rewrite <- E. now apply in_map.
    - destruct Hin as [<-|Hin].
      + right. split; [now left|]. intros E. apply Hnotin. rewrite E.
        apply nth_error_In in Hn. now apply in_map.
      + destruct (IH i a b x Hnd' Hn Hin) as [->|[H1 H2]]; [now left|]. right. split; [now right|exact H2].
  Qed.

  Lemma in_replace_nth_new {A} i (b : A) l a : nth_error l i = Some a -> In b (replace_nth A i b l).
  Proof.
    revert i. induction l as [|y l IH]; intros i H; destruct i; cbn in *; try discriminate; [now left|].
    right. now apply IH.
  Qed.

  (** ** one step preserves the invariant *)
  Lemma pushed_at_app F a b k : pushed_at F (a ++ b) k = pushed_at F a k ++ pushed_at F b k.
  Proof. unfold Conc.pushed_at. now rewrite filter_app, map_app. Qed.

  Lemma memk_app k a b : memk k (a ++ b) = memk k a || memk k b.
  Proof. unfold memk. apply existsb_app. Qed.

  Lemma step_inv m sts m' ts' :
    NoDup (files_of sts) -> inv m sts -> step (m, map thr_of sts) (m', ts') ->
    exists sts', ts' = map thr_of sts' /\ files_of sts' = files_of sts /\ map s_a sts' = map s_a sts /\ inv m' sts'.
  Proof.
    intros Hnd Hinv Hs. inversion Hs as [m1 ts i t m2 t' Hn Ht]; subst.
    apply nth_error_map_some in Hn as [st [Hn <-]].
    pose proof (nth_error_In _ _ Hn) as Hin.
    destruct Hinv as [Hok Hsl Hfo Hem].
    pose proof (Hok st Hin) as [HL [HI Hc]]. pose proof (Hsl st Hin) as Hsli.
    set (F := a_file (s_a st)) in *.
    (* what is needed of the new stage *)
    assert (Finish : forall st',
               s_a st' = s_a st -> t' = thr_of st' -> stage_ok st' -> slice_inv m' st' ->
               (forall H, H <> F -> forall k, slice H m' k = slice H m k) ->
               (forall k, m' k = Some [] -> s_rm st' = Some k \/ (m k = Some [] /\ s_rm st <> Some k)) ->
               exists sts', replace_nth _ i t' (map thr_of sts) = map thr_of sts' /\ files_of sts' = files_of sts
                            /\ map s_a sts' = map s_a sts /\ inv m' sts').
    { intros st' Ha -> Hok' Hsl' Hoth Hemp. exists (replace_nth _ i st' sts).
      split; [now rewrite map_replace_nth|].
      assert (Hfiles : files_of (replace_nth _ i st' sts) = files_of sts).
      { unfold files_of. apply (replace_nth_same_key (fun st0 => a_file (s_a st0)) i st' st sts Hn). now rewrite Ha. }
      split; [exact Hfiles|]. split; [apply (replace_nth_same_key s_a i st' st sts Hn Ha)|].
      constructor.
      - intros x Hx. destruct (in_replace_nth_nodup (fun st0 => a_file (s_a st0)) sts i st st' x Hnd Hn Hx) as [->|[Hx1 _]];
          [exact Hok'|now apply Hok].
      - intros x Hx. destruct (in_replace_nth_nodup (fun st0 => a_file (s_a st0)) sts i st st' x Hnd Hn Hx) as [->|[Hx1 Hx2]];
          [exact Hsl'|].
        intros k. rewrite (Hoth _ Hx2 k). now apply Hsl.
      - intros G HG k. rewrite Hfiles in HG.
        assert (G <> F). { intros ->. apply HG. unfold files_of. now apply (in_map (fun st0 => a_file (s_a st0))). }
        rewrite (Hoth G H k). now apply Hfo.
      - intros k Hk. destruct (Hemp k Hk) as [Hr|[Hk0 Hr]].
        + exists st'. split; [eapply in_replace_nth_new; eauto|exact Hr].
        + destruct (Hem k Hk0) as [x [Hx Hxr]]. exists x. split; [|exact Hxr].
          assert (x <> st) by (intros ->; contradiction).
          clear - Hn Hx H. revert i Hn. induction sts as [|y l IH]; intros i Hn; [contradiction|].
          destruct i as [|i]; cbn in *.
          * injection Hn as ->. destruct Hx as [->|Hx]; [contradiction|now right].
          * destruct Hx as [->|Hx]; [now left|right; now apply (IH Hx i)]. }
    unfold tstep in Ht. cbn [t_pend t_file thr_of] in Ht. unfold pend_of in Ht.
    destruct (s_rm st) as [k0|] eqn:Erm; cbn [app] in Ht.
    - (* pending remove_if k0 *)
      set (st' := mk_stage (s_a st) (s_L1 st) (s_L2 st) (s_i1 st) (s_i2 st) None).
      assert (Hi1 : s_i1 st = []) by (apply Hc; right; congruence).
      assert (Hsame : forall H k, slice H m' k = slice H m k).
      { intros H k. destruct (m k0) as [[|e l]|] eqn:E0; injection Ht as <- _; try reflexivity.
        unfold Conc.slice. destruct (key_eqb_eq k k0) as [_ X].
        destruct (key_eqb k k0) eqn:Ek.
        - apply key_eqb_eq in Ek. subst k. now rewrite upd_same, E0.
        - rewrite upd_other; [reflexivity|]. intros ->. now rewrite key_eqb_refl in Ek. }
      apply (Finish st'); try reflexivity.
      + destruct (m k0) as [[|e l]|]; injection Ht as _ <-; reflexivity.
      + unfold stage_ok, st'. cbn. repeat split; try assumption. intros _. exact Hi1.
      + intros k. unfold st'. cbn [s_a s_L1 s_i1]. change (a_file (s_a st)) with F. rewrite Hsame. apply Hsli.
      + intros H _ k. apply Hsame.
      + intros k Hk. right. split.
        * destruct (m k0) as [[|e l]|] eqn:E0; injection Ht as <- _; try exact Hk.
          destruct (key_eqb k k0) eqn:Ek.
          -- apply key_eqb_eq in Ek. subst k. rewrite upd_same in Hk. discriminate.
          -- rewrite upd_other in Hk; [exact Hk|]. intros ->. now rewrite key_eqb_refl in Ek.
        * intros E. injection E as ->.
          destruct (m k) as [[|e l]|] eqn:E0; injection Ht as <- _.
          -- rewrite upd_same in Hk. discriminate.
          -- rewrite E0 in Hk. discriminate.
          -- rewrite E0 in Hk. discriminate.
    - destruct (s_L2 st) as [|k1 L2'] eqn:EL2; cbn [map app] in Ht.
      + destruct (s_i2 st) as [|[k1 x] i2'] eqn:Ei2; cbn [map app push_of fst snd] in Ht; [discriminate|].
        (* push *)
        injection Ht as <- <-.
        set (l := match m k1 with Some l => l | None => [] end).
        set (st' := mk_stage (s_a st) (s_L1 st) [] (s_i1 st ++ [(k1, x)]) i2' None).
        assert (Hk1 : forall H, slice H (upd m k1 (Some (l ++ [(F, x)]))) k1
                                = slice H m k1 ++ (if file_eqb F H then [(F, x)] else [])).
        { intros H. unfold Conc.slice. rewrite upd_same, of_file_app. unfold l.
          destruct (m k1); cbn; destruct (file_eqb F H); reflexivity. }
        assert (Hko : forall H k, k <> k1 -> slice H (upd m k1 (Some (l ++ [(F, x)]))) k = slice H m k).
        { intros H k Hne. unfold Conc.slice. now rewrite upd_other. }
        apply (Finish st'); try reflexivity.
        * unfold stage_ok, st'. cbn. repeat split.
          -- rewrite HL; try rewrite EL2; reflexivity.
          -- rewrite HI; try rewrite Ei2; rewrite <- app_assoc; reflexivity.
          -- intros [X|X]; congruence.
        * intros k. unfold st'. cbn [s_a s_L1 s_i1]. change (a_file (s_a st)) with F. rewrite pushed_at_app.
          destruct (key_eqb_eq k k1) as [_ X]. destruct (key_eqb k k1) eqn:Ek.
          -- apply key_eqb_eq in Ek. subst k. rewrite Hk1, file_eqb_refl, Hsli, <- app_assoc. f_equal.
             unfold Conc.pushed_at. cbn. now rewrite key_eqb_refl.
          -- assert (k <> k1) by (intros ->; now rewrite key_eqb_refl in Ek).
             rewrite Hko by assumption. rewrite Hsli. f_equal.
             unfold Conc.pushed_at. cbn. rewrite (key_eqb_neq k1 k) by congruence. cbn. now rewrite app_nil_r.
        * intros H HF k. destruct (key_eqb k k1) eqn:Ek.
          -- apply key_eqb_eq in Ek. subst k. rewrite Hk1, (file_eqb_neq F H) by congruence. now rewrite app_nil_r.
          -- apply Hko. intros ->. now rewrite key_eqb_refl in Ek.
        * intros k Hk. right. destruct (key_eqb k k1) eqn:Ek.
          -- apply key_eqb_eq in Ek. subst k. rewrite upd_same in Hk. injection Hk as Hk. apply (f_equal (@length _)) in Hk. rewrite app_length in Hk. cbn in Hk. lia.
          -- rewrite upd_other in Hk; [split; [exact Hk|congruence]|]. intros ->. now rewrite key_eqb_refl in Ek.
      + (* retain k1 *)
        assert (Hi1 : s_i1 st = []) by (apply Hc; left; congruence).
        destruct (m k1) as [l|] eqn:E1.
        * change (a_file (s_a st)) with F in Ht. remember (not_of_file F l) as l' eqn:El'. injection Ht as <- <-.
          set (st' := mk_stage (s_a st) (s_L1 st ++ [k1]) L2' (s_i1 st) (s_i2 st)
                               (match l' with [] => Some k1 | _ => None end)).
          assert (Hk1F : slice F (upd m k1 (Some l')) k1 = []).
          { unfold Conc.slice. rewrite upd_same, El'. apply of_file_not_of_file_same. }
          assert (Hk1o : forall H, H <> F -> slice H (upd m k1 (Some l')) k1 = slice H m k1).
          { intros H HF. unfold Conc.slice. rewrite upd_same, E1, El'. now apply of_file_not_of_file_other. }
          assert (Hko : forall H k, k <> k1 -> slice H (upd m k1 (Some l')) k = slice H m k).
          { intros H k Hne. unfold Conc.slice. now rewrite upd_other. }
          apply (Finish st'); try reflexivity.
          -- unfold thr_of, pend_of, st'. cbn [s_a s_rm s_L2 s_i2]. destruct l'; reflexivity.
          -- unfold stage_ok, st'. cbn [s_a s_L1 s_L2 s_i1 s_i2 s_rm]. repeat split.
             ++ rewrite HL; try rewrite EL2; rewrite <- app_assoc; reflexivity.
             ++ exact HI.
             ++ intros _. exact Hi1.
          -- intros k. unfold st'. cbn [s_a s_L1 s_i1]. change (a_file (s_a st)) with F. rewrite Hi1. unfold Conc.pushed_at at 1. cbn [filter map].
             rewrite app_nil_r, memk_app. destruct (key_eqb k k1) eqn:Ek.
             ++ apply key_eqb_eq in Ek. subst k. rewrite Hk1F. unfold memk at 2. cbn. rewrite key_eqb_refl.
                now rewrite orb_true_r.
             ++ assert (k <> k1) by (intros ->; now rewrite key_eqb_refl in Ek).
                rewrite Hko by assumption. rewrite Hsli, Hi1. unfold Conc.pushed_at. cbn [filter map]. rewrite app_nil_r.
                unfold memk at 2. cbn. rewrite Ek. cbn. now rewrite orb_false_r.
          -- intros H HF k. destruct (key_eqb k k1) eqn:Ek.
             ++ apply key_eqb_eq in Ek. subst k. now apply Hk1o.
             ++ apply Hko. intros ->. now rewrite key_eqb_refl in Ek.
          -- intros k Hk. destruct (key_eqb k k1) eqn:Ek.
             ++ apply key_eqb_eq in Ek. subst k. rewrite upd_same in Hk. injection Hk as Hk.
                left. unfold st'. cbn [s_rm]. now rewrite Hk.
             ++ right. rewrite upd_other in Hk; [split; [exact Hk|congruence]|]. intros ->. now rewrite key_eqb_refl in Ek.
        * injection Ht as <- <-.
          set (st' := mk_stage (s_a st) (s_L1 st ++ [k1]) L2' (s_i1 st) (s_i2 st) None).
          apply (Finish st'); try reflexivity.
          -- unfold stage_ok, st'. cbn [s_a s_L1 s_L2 s_i1 s_i2 s_rm]. repeat split.
             ++ rewrite HL; try rewrite EL2; rewrite <- app_assoc; reflexivity.
             ++ exact HI.
             ++ intros _. exact Hi1.
          -- intros k. unfold st'. cbn [s_a s_L1 s_i1]. change (a_file (s_a st)) with F. rewrite memk_app. destruct (key_eqb k k1) eqn:Ek.
             ++ apply key_eqb_eq in Ek. subst k. unfold memk at 2. cbn. rewrite key_eqb_refl, orb_true_r.
                rewrite Hi1. unfold Conc.pushed_at, Conc.slice. cbn. now rewrite E1.
             ++ unfold memk at 2. cbn. rewrite Ek. cbn. rewrite orb_false_r. apply Hsli.
          -- intros k Hk. right. split; [exact Hk|congruence].
  Qed.

  Lemma steps_inv sts : forall m c',
    NoDup (files_of sts) -> inv m sts -> steps (m, map thr_of sts) c' ->
    exists sts', snd c' = map thr_of sts' /\ map s_a sts' = map s_a sts /\ inv (fst c') sts'.
  Proof.
    intros m c' Hnd Hinv Hs. remember (m, map thr_of sts) as c eqn:Ec. revert m sts Hnd Hinv Ec.
    induction Hs as [c|c c1 c2 H1 _ IH]; intros m sts Hnd Hinv ->.
    - exists sts. auto.
    - destruct c1 as [m1 ts1]. destruct (step_inv m sts m1 ts1 Hnd Hinv H1) as (sts1 & -> & Hf & Ha & Hinv1).
      destruct (IH m1 sts1) as (sts2 & E2 & Ha2 & Hinv2); [now rewrite Hf|exact Hinv1|reflexivity|].
      exists sts2. split; [exact E2|]. split; [now rewrite Ha2|exact Hinv2].
  Qed.

  (** ** the theorem *)
  Lemma init_inv (As : list analysis) :
    (forall k, m0 k <> Some []) -> inv m0 (map init_stage As).
  Proof.
    intros Hne. constructor.
    - intros st Hst. apply in_map_iff in Hst as [a [<- _]]. unfold stage_ok, init_stage. cbn. auto.
    - intros st Hst k. apply in_map_iff in Hst as [a [<- _]]. cbn. unfold Conc.pushed_at. cbn. now rewrite app_nil_r.
    - reflexivity.
    - intros k Hk. exfalso. exact (Hne k Hk).
  Qed.

  Definition threads_of (As : list analysis) : list thr :=
    map (fun a => mk_thr key file item (a_file a) (program key item (a_L a) (a_items a))) As.

  Lemma threads_of_init As : threads_of As = map thr_of (map init_stage As).
  Proof. unfold threads_of. rewrite map_map. apply map_ext. intros a. reflexivity. Qed.

  Lemma pend_of_nil st : pend_of st = [] -> s_rm st = None /\ s_L2 st = [] /\ s_i2 st = [].
  Proof.
    unfold pend_of. destruct (s_rm st); [discriminate|]. cbn [app]. intros H.
    apply app_eq_nil in H as [H1 H2]. apply map_eq_nil in H1, H2. auto.
  Qed.

  Theorem isolation (As : list analysis) m ts :
    NoDup (map a_file As) ->
    (forall k, m0 k <> Some []) ->
    steps (m0, threads_of As) (m, ts) -> quiescent key file item ts ->
    (forall a, In a As -> forall k,
        slice (a_file a) m k
        = (if memk k (a_L a) then [] else slice (a_file a) m0 k) ++ pushed_at (a_file a) (a_items a) k)
    /\ (forall G, ~ In G (map a_file As) -> forall k, slice G m k = slice G m0 k)
    /\ (forall k, m k <> Some []).
  Proof.
    intros Hnd Hne Hs Hq. rewrite threads_of_init in Hs.
    assert (Hnd' : NoDup (files_of (map init_stage As))).
    { unfold files_of. rewrite map_map. exact Hnd. }
    destruct (steps_inv (map init_stage As) m0 (m, ts) Hnd' (init_inv As Hne) Hs) as (sts & Ets & Ha & Hinv).
    cbn [fst snd] in *. subst ts.
    assert (Hdone : forall st, In st sts -> s_rm st = None /\ s_L2 st = [] /\ s_i2 st = []).
    { intros st Hst. apply pend_of_nil. apply (Hq (thr_of st)). now apply in_map. }
    rewrite map_map in Ha. cbn [init_stage s_a] in Ha. rewrite map_id in Ha.
    destruct Hinv as [Hok Hsl Hfo Hem]. split; [|split].
    - intros a Hina k.
      assert (Hex : exists st, In st sts /\ s_a st = a).
      { rewrite <- Ha in Hina. apply in_map_iff in Hina as [st [E Hst]]. eauto. }
      destruct Hex as [st [Hst <-]].
      destruct (Hdone st Hst) as (_ & H2 & H3). destruct (Hok st Hst) as (HL & HI & _).
      rewrite H2, app_nil_r in HL. rewrite H3, app_nil_r in HI. rewrite HL, HI. apply Hsl, Hst.
    - intros G HG k. apply Hfo. intros X. apply HG. unfold files_of in X.
      rewrite <- Ha, map_map. exact X.
    - intros k Hk. destruct (Hem k Hk) as [st [Hst Hr]]. destruct (Hdone st Hst) as (H1 & _). congruence.
  Qed.

  (** any two complete executions — in particular any sequential one — agree on every
      slice of every key *)
  Corollary schedule_independent (As : list analysis) m1 ts1 m2 ts2 :
    NoDup (map a_file As) -> (forall k, m0 k <> Some []) ->
    steps (m0, threads_of As) (m1, ts1) -> quiescent key file item ts1 ->
    steps (m0, threads_of As) (m2, ts2) -> quiescent key file item ts2 ->
    forall F k, slice F m1 k = slice F m2 k.
  Proof.
    intros Hnd Hne H1 Q1 H2 Q2 F k.
    destruct (isolation As m1 ts1 Hnd Hne H1 Q1) as (A1 & B1 & _).
    destruct (isolation As m2 ts2 Hnd Hne H2 Q2) as (A2 & B2 & _).
    destruct (existsb (fun a => file_eqb (a_file a) F) As) eqn:E.
    - apply existsb_exists in E as [a [Ha Hf]]. apply file_eqb_eq in Hf. subst F. now rewrite A1, A2.
    - assert (Hnin : ~ In F (map a_file As)).
      { intros Hin. apply in_map_iff in Hin as [a [<- Ha]].
        assert (X : existsb (fun a0 => file_eqb (a_file a0) (a_file a)) As = true).
        { apply existsb_exists. exists a. split; [exact Ha|apply file_eqb_refl]. }
        congruence. }
      now rewrite B1, B2.
  Qed.
End Proof.
