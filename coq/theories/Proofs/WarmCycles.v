(** * The cycle memo is invisible too (C07).
    [Proofs/WarmCold.v] shows that in every state reached by analyses, closes and queries the
    resolver, the import test and the per-file view answer what a cold twin answers.  This
    file adds the fourth memoised query - cycle detection, whose memo is keyed by the
    definitions version alone - to the reachable states and proves the same for it:
    in every state reached by analyses, closes, queries AND cycle queries, in any order,
    [cycles] (memo consulted) equals [cycles_cold] of the state with all memos emptied. *)
From Coq Require Import Arith Lia.
From PLS Require Import Check.C07 Model.Diagnostics Proofs.Basics Proofs.CacheValid Proofs.ImportClosure Proofs.WarmCold
                        Proofs.ImportsComplete.
Local Open Scope N_scope.

Section WarmCycles.
  Variable dk : disk.
  Variable roots : list path.

  Notation memo_ok := (memo_ok dk roots).

  (** ** the cold computation does not look at any memo *)
  Lemma dep_target_warm s d n : memo_ok s -> dep_target dk roots s d n = dep_target dk roots (cold s) d n.
  Proof.
    intros M. unfold dep_target, closest_excluding, closest.
    change (d_name d) with (d_name d).
    destruct (String.eqb n (d_name d)).
    - now rewrite (closest_with_warm dk roots s _ (d_file d) n M).
    - now apply closest_with_warm.
  Qed.

  Lemma node_succs_warm s d : memo_ok s -> node_succs dk roots s d = node_succs dk roots (cold s) d.
  Proof.
    intros M. unfold node_succs. change (node_of (cold s)) with (node_of s).
    induction (d_deps d) as [|n ns IH]; cbn [flat_map]; [reflexivity|].
    now rewrite IH, (dep_target_warm s d n M).
  Qed.

  Lemma visit_warm s : memo_ok s -> forall fuel rec pth d st,
    visit dk roots s fuel rec pth d st = visit dk roots (cold s) fuel rec pth d st.
  Proof.
    intros M. induction fuel as [|fuel IH]; intros rec pth d st; cbn [visit]; [reflexivity|].
    rewrite <- (node_succs_warm s d M).
    assert (E : forall l st0,
              fold_left (fun st1 dep => if mem_node dep (d :: rec) then report (pth ++ [d]) dep st1
                                        else if mem_node dep (visited st1) then st1
                                        else visit dk roots s fuel (d :: rec) (pth ++ [d]) dep st1) l st0
            = fold_left (fun st1 dep => if mem_node dep (d :: rec) then report (pth ++ [d]) dep st1
                                        else if mem_node dep (visited st1) then st1
                                        else visit dk roots (cold s) fuel (d :: rec) (pth ++ [d]) dep st1) l st0).
    { induction l as [|x l IHl]; intros st0; cbn [fold_left]; [reflexivity|]. rewrite IHl. apply f_equal.
      destruct (mem_node x (d :: rec)); [reflexivity|]. destruct (mem_node x (visited st0)); [reflexivity|]. apply IH. }
    rewrite E. reflexivity.
  Qed.

  Theorem cycles_cold_warm s : memo_ok s -> cycles_cold dk roots s = cycles_cold dk roots (cold s).
  Proof.
    intros M. unfold cycles_cold. change (nodes (cold s)) with (nodes s).
    assert (E : forall l st0,
              fold_left (fun st d => if mem_node d (visited st) then st
                                     else visit dk roots s (S (length (nodes s))) [] [] d st) l st0
            = fold_left (fun st d => if mem_node d (visited st) then st
                                     else visit dk roots (cold s) (S (length (nodes s))) [] [] d st) l st0).
    { induction l as [|x l IHl]; intros st0; cbn [fold_left]; [reflexivity|].
      rewrite IHl. apply f_equal. destruct (mem_node x (visited st0)); [reflexivity|]. apply (visit_warm s M). }
    rewrite E. reflexivity.
  Qed.

  (** ** the memo's invariant *)
  Definition cyc_bounded (s : index) : Prop := forall v l, cyc_cache s = Some (v, l) -> v <= version s.
  Definition cyc_ok (s : index) : Prop := forall l, cyc_hit s = Some l -> l = cycles_cold dk roots (cold s).

  Record warm2 (s : index) : Prop := { w2_warm : warm_ok dk roots s; w2_bounded : cyc_bounded s; w2_cyc : cyc_ok s }.

  Lemma cyc_hit_stale s s' : cyc_cache s' = cyc_cache s -> version s < version s' -> cyc_bounded s ->
    cyc_hit s' = None /\ cyc_bounded s'.
  Proof.
    intros Ec Hv B. unfold cyc_hit, cyc_bounded. rewrite Ec. split.
    - destruct (cyc_cache s) as [[v l]|] eqn:E; [|reflexivity].
      specialize (B v l E). destruct (v =? version s') eqn:Ev; [|reflexivity]. apply N.eqb_eq in Ev. lia.
    - intros v l H. specialize (B v l H). lia.
  Qed.

  Lemma analyze_cyc c F v s : cyc_cache (analyze c F v s) = cyc_cache s.
  Proof.
    unfold analyze. destruct (negb (f_ok v)); [reflexivity|].
    assert (G : forall items s0, cyc_cache (fold_left (visit_item F) items s0) = cyc_cache s0).
    { induction items as [|it items IH]; intros s0; cbn [fold_left]; [reflexivity|].
      rewrite IH. destruct it as [u|l|b]; cbn; try reflexivity. unfold record_def. cbn. destruct (existsb _ _); reflexivity. }
    rewrite G. destruct c; reflexivity.
  Qed.

  (** queries keep the base state, the version and the cycle memo *)
  Lemma same_base_version s s' : same_base s s' -> version s' = version s.
  Proof. intros H. apply (f_equal version) in H. exact H. Qed.

  Lemma imp_store_cyc s x : cyc_cache (imp_store dk roots s x) = cyc_cache s.
  Proof. unfold imp_store. destruct (content dk s x) as [c|]; [|reflexivity]. destruct (imp_hit s x c); reflexivity. Qed.
  Lemma touch_cyc files : forall s, cyc_cache (touch dk roots s files) = cyc_cache s.
  Proof.
    unfold touch. induction files as [|x files IH]; intros s; cbn [fold_left]; [reflexivity|].
    now rewrite IH, imp_store_cyc.
  Qed.
  Lemma post_closest_with_cyc s flt F n : cyc_cache (post_closest_with dk roots s flt F n) = cyc_cache s.
  Proof. apply touch_cyc. Qed.
  Lemma post_resolve_usage_cyc s F line n : cyc_cache (post_resolve_usage dk roots s F line n) = cyc_cache s.
  Proof.
    unfold post_resolve_usage. destruct (def_at_line s F line) as [cd|]; [|apply post_closest_with_cyc].
    destruct (String.eqb (d_name cd) n); apply post_closest_with_cyc.
  Qed.
  Lemma post_goto_cyc s F l c : cyc_cache (post_goto dk roots s F l c) = cyc_cache s.
  Proof.
    unfold post_goto. destruct (line_text dk s F l) as [tx|]; [|reflexivity]. destruct (word_at tx c); [|reflexivity].
    destruct (find _ (usages_of_file s F)); [|reflexivity]. apply post_resolve_usage_cyc.
  Qed.
  Lemma post_refs_cyc s d : cyc_cache (post_refs dk roots s d) = cyc_cache s.
  Proof.
    unfold post_refs. generalize (usage_by_name s (d_name d)). intros us.
    assert (G : forall s0, cyc_cache (fold_left (fun s u => post_resolve_usage dk roots s (u_file u) (u_line u) (u_name u)) us s0) = cyc_cache s0).
    { induction us as [|u us IH]; intros s0; cbn [fold_left]; [reflexivity|]. now rewrite IH, post_resolve_usage_cyc. }
    apply G.
  Qed.
  Lemma post_available_cyc s F : cyc_cache (post_available dk roots s F) = cyc_cache s.
  Proof.
    unfold post_available. destruct (av_hit s F); [reflexivity|]. cbn [cyc_cache set_av_cache].
    destruct F; [reflexivity|apply touch_cyc].
  Qed.
  Lemma post_aq7_cyc s q : cyc_cache (post_aq7 dk roots s q) = cyc_cache s.
  Proof.
    destruct q; cbn [post_aq7]; [apply post_goto_cyc|apply post_closest_with_cyc|apply post_available_cyc
                                 |reflexivity|apply imp_store_cyc|apply post_refs_cyc].
  Qed.

  Lemma frame_ok s s' : same_base s s' -> cyc_cache s' = cyc_cache s ->
    cyc_bounded s -> cyc_ok s -> cyc_bounded s' /\ cyc_ok s'.
  Proof.
    intros B C Hb Ho. pose proof (same_base_version s s' B) as V. split.
    - intros v l H. rewrite C in H. rewrite V. exact (Hb v l H).
    - intros l H. unfold cyc_hit in H. rewrite C, V in H. unfold same_base in B. rewrite B. exact (Ho l H).
  Qed.

  (** ** the cycle query itself *)
  Definition resolve_all (s : index) : index :=
    fold_left (fun s d =>
                 fold_left (fun s n =>
                              if String.eqb n (d_name d)
                              then post_closest_with dk roots s (fun x => negb (fdef_eqb x d)) (d_file d) n
                              else post_closest_with dk roots s (fun _ => true) (d_file d) n)
                           (d_deps d) s)
              (nodes s) s.

  Lemma post_cycles_unfold s :
    post_cycles dk roots s = match cyc_hit s with
                             | Some _ => s
                             | None => set_cyc_cache (resolve_all s) (Some (version s, cycles_cold dk roots s))
                             end.
  Proof. reflexivity. Qed.

  Definition resolve_deps (d : fdef) (deps : list string) (s0 : index) : index :=
    fold_left (fun s n =>
                 if String.eqb n (d_name d)
                 then post_closest_with dk roots s (fun x => negb (fdef_eqb x d)) (d_file d) n
                 else post_closest_with dk roots s (fun _ => true) (d_file d) n) deps s0.

  Lemma resolve_deps_ok d : forall deps s0, warm_ok dk roots s0 ->
    warm_ok dk roots (resolve_deps d deps s0) /\ same_base s0 (resolve_deps d deps s0) /\
    cyc_cache (resolve_deps d deps s0) = cyc_cache s0.
  Proof.
    unfold resolve_deps.
    induction deps as [|n deps IH]; intros s0 H; cbn [fold_left]; [split; [exact H|split; reflexivity]|].
    set (s1 := if String.eqb n (d_name d)
               then post_closest_with dk roots s0 (fun x => negb (fdef_eqb x d)) (d_file d) n
               else post_closest_with dk roots s0 (fun _ => true) (d_file d) n).
    assert (H1 : warm_ok dk roots s1 /\ same_base s0 s1 /\ cyc_cache s1 = cyc_cache s0).
    { unfold s1. destruct (String.eqb n (d_name d));
        (split; [now apply post_closest_with_ok|split; [apply touch_base|apply post_closest_with_cyc]]). }
    destruct H1 as [W1 [B1 C1]]. destruct (IH s1 W1) as [W2 [B2 C2]].
    split; [exact W2|]. split; [|now rewrite C2].
    unfold same_base in *. now rewrite B2.
  Qed.

  Lemma resolve_all_ok s : warm_ok dk roots s ->
    warm_ok dk roots (resolve_all s) /\ same_base s (resolve_all s) /\ cyc_cache (resolve_all s) = cyc_cache s.
  Proof.
    unfold resolve_all. generalize (nodes s). intros ns.
    change (warm_ok dk roots s ->
            warm_ok dk roots (fold_left (fun s d => resolve_deps d (d_deps d) s) ns s) /\
            same_base s (fold_left (fun s d => resolve_deps d (d_deps d) s) ns s) /\
            cyc_cache (fold_left (fun s d => resolve_deps d (d_deps d) s) ns s) = cyc_cache s).
    revert s. induction ns as [|d ns IH]; intros s0 H; cbn [fold_left]; [split; [exact H|split; reflexivity]|].
    destruct (resolve_deps_ok d (d_deps d) s0 H) as [W1 [B1 C1]].
    destruct (IH _ W1) as [W2 [B2 C2]].
    split; [exact W2|]. split; [|now rewrite C2].
    unfold same_base in *. now rewrite B2.
  Qed.

  Lemma warm_ok_set_cyc s v : warm_ok dk roots s -> warm_ok dk roots (set_cyc_cache s v).
  Proof.
    intros [M A B].
    assert (SB : same_base s (set_cyc_cache s v)) by reflexivity.
    split.
    - intros file c names Hc Hh n. rewrite (Cl_base dk roots s (set_cyc_cache s v) file n SB).
      exact (M file c names Hc Hh n).
    - intros F l Hh. exact (A F l Hh).
    - exact B.
  Qed.

  Lemma post_cycles_ok s : warm2 s -> warm2 (post_cycles dk roots s).
  Proof.
    intros [W Bd Ok]. rewrite post_cycles_unfold. destruct (cyc_hit s) as [l|] eqn:Eh; [now split|].
    destruct (resolve_all_ok s W) as [W1 [B1 C1]]. pose proof (same_base_version _ _ B1) as V1.
    split.
    - now apply warm_ok_set_cyc.
    - intros v l H. cbn [cyc_cache set_cyc_cache] in H. injection H as <- _. cbn [version set_cyc_cache]. lia.
    - intros l H. unfold cyc_hit in H. cbn [cyc_cache set_cyc_cache version] in H.
      rewrite V1, N.eqb_refl in H. injection H as <-.
      change (cold (set_cyc_cache (resolve_all s) (Some (version s, cycles_cold dk roots s)))) with (cold (resolve_all s)).
      unfold same_base in B1. rewrite B1. apply cycles_cold_warm. exact (w_memo dk roots s W).
  Qed.

  (** ** every state reached by analyses, closes, queries and cycle queries, in any order *)
  Inductive reached2 : index -> Prop :=
  | r2_init : reached2 empty_index
  | r2_analyze c F v s : reached2 s -> reached2 (analyze c F v s)
  | r2_close F s : reached2 s -> reached2 (close F s)
  | r2_query q s : reached2 s -> reached2 (post_aq7 dk roots s q)
  | r2_cycles s : reached2 s -> reached2 (post_cycles dk roots s).

  Theorem reached2_ok s : reached2 s -> warm2 s.
  Proof.
    induction 1 as [|c F v s _ IH|F s _ IH|q s _ IH|s _ IH].
    - split; [apply warm_ok_fresh; split; intros; contradiction|intros v l H; discriminate|intros l H; discriminate].
    - destruct IH as [W Bd Ok].
      destruct (stale_after_analyze c F v s (w_bounded dk roots s W)) as [N B].
      destruct (cyc_hit_stale s (analyze c F v s) (analyze_cyc c F v s) (analyze_version_grows c F v s) Bd) as [Hn Hb].
      split; [now apply warm_ok_fresh|exact Hb|intros l H; rewrite Hn in H; discriminate].
    - destruct IH as [W Bd Ok].
      destruct (stale_after_close F s (w_bounded dk roots s W)) as [N B].
      assert (Hv : version s < version (close F s)) by (unfold close; cbn; lia).
      destruct (cyc_hit_stale s (close F s) eq_refl Hv Bd) as [Hn Hb].
      split; [now apply warm_ok_fresh|exact Hb|intros l H; rewrite Hn in H; discriminate].
    - destruct IH as [W Bd Ok].
      destruct (frame_ok s (post_aq7 dk roots s q) (post_aq7_base dk roots s q) (post_aq7_cyc s q) Bd Ok) as [Hb Ho].
      split; [now apply post_aq7_ok|exact Hb|exact Ho].
    - now apply post_cycles_ok.
  Qed.

  Theorem cycles_warm_equals_cold s : reached2 s -> cycles dk roots s = cycles_cold dk roots (cold s).
  Proof.
    intros R. destruct (reached2_ok s R) as [W _ Ok]. unfold cycles.
    destruct (cyc_hit s) as [l|] eqn:E; [now apply Ok|]. apply cycles_cold_warm. exact (w_memo dk roots s W).
  Qed.

  (** and the three other memoised queries, in these larger reachable states *)
  Theorem warm_equals_cold_everywhere2 s : reached2 s ->
    (forall flt F n, closest_with dk roots s flt F n = closest_with dk roots (cold s) flt F n) /\
    (forall n file, is_imported dk roots s n file = is_imported dk roots (cold s) n file) /\
    (forall F, available dk roots s F = available_cold dk roots (cold s) F) /\
    cycles dk roots s = cycles_cold dk roots (cold s).
  Proof.
    intros R. destruct (reached2_ok s R) as [[M A B] _ _].
    split; [intros; now apply closest_with_warm|]. split; [intros; now apply is_imported_warm|].
    split; [intros; now apply available_warm|]. now apply cycles_warm_equals_cold.
  Qed.
End WarmCycles.
