(** * Proofs for C03: the analyzer's records against the documented extraction rules,
    for EVERY module of the AST fragment (any nesting of classes, any decorators, any
    parameters). *)
From Coq Require Import Arith Lia.
From PLS Require Import Spec.Extract Model.History Proofs.Basics.

(** ** the recognisers agree with the declarative spellings *)
Lemma is_fixture_decorator_spelling e : is_fixture_decorator e = fixture_spelling e.
Proof.
  unfold fixture_spelling. induction e; cbn [is_fixture_decorator strip_calls]; try reflexivity.
  - destruct e; try reflexivity. cbn. now rewrite andb_comm.
  - exact IHe.
Qed.

Lemma is_mark_spelling marker e : is_mark marker e = mark_spelling marker e.
Proof.
  unfold mark_spelling. induction e; cbn [is_mark strip_calls]; try reflexivity.
  - destruct e; try (now rewrite andb_false_r); try reflexivity.
    destruct e; try (now rewrite andb_false_r). now rewrite andb_assoc.
  - exact IHe.
Qed.

Lemma find_ext {A} (p q : A -> bool) l : (forall x, p x = q x) -> List.find p l = List.find q l.
Proof. intros H. induction l as [|x l IH]; cbn; [reflexivity|]. now rewrite H, IH. Qed.

(** ** keyword lookups *)
Lemma find_map_name kws key :
  find_map (fun v => match v with EStr s _ _ _ _ => Some s | _ => None end) (kw_values kws key)
  = match kw_string kws key with s :: _ => Some s | [] => None end.
Proof.
  induction kws as [|[[k|] v] kws IH]; cbn [kw_values kw_string flat_map]; [reflexivity| |exact IH].
  destruct v; cbn [app]; try (destruct (String.eqb k key); cbn [app find_map]; exact IH).
  destruct (String.eqb k key); cbn [app find_map]; [reflexivity|exact IH].
Qed.

Lemma find_map_scope kws key :
  find_map (fun v => match v with EStr s _ _ _ _ => scope_of_string s | _ => None end) (kw_values kws key)
  = match flat_map (fun s => opt_list (scope_of_string s)) (kw_string kws key) with r :: _ => Some r | [] => None end.
Proof.
  induction kws as [|[[k|] v] kws IH]; cbn [kw_values kw_string flat_map]; [reflexivity| |exact IH].
  destruct v; cbn [app]; try (destruct (String.eqb k key); cbn [app find_map]; exact IH).
  destruct (String.eqb k key); cbn [app find_map flat_map]; [|exact IH].
  destruct (scope_of_string v); cbn [opt_list app]; [reflexivity|exact IH].
Qed.

Lemma autouse_kws kws :
  existsb (fun v => match v with EBool true => true | _ => false end) (kw_values kws "autouse")
  = existsb (fun kv => match kv with (Some k, EBool true) => String.eqb k "autouse" | _ => false end) kws.
Proof.
  unfold kw_values.
  induction kws as [|[[k|] v] kws IH]; cbn [flat_map existsb app]; [reflexivity| |].
  - rewrite existsb_app, IH. destruct (String.eqb k "autouse") eqn:E; cbn [existsb].
    + destruct v; try reflexivity; try (destruct b; reflexivity).
    + destruct v; try reflexivity; try (destruct b; reflexivity).
  - exact IH.
Qed.

(** a decorator that is a fixture decorator exposes its keywords *)
Lemma fixture_kw_deco d key : is_fixture_decorator d = true -> fixture_kw d key = kw_values (deco_kws d) key.
Proof.
  destruct d; cbn [fixture_kw deco_kws kw_values flat_map]; try reflexivity.
  cbn [is_fixture_decorator]. now intros ->.
Qed.

(** ** the type printer is the documented one *)
Lemma type_text_eq (e : expr) : expr_to_string e = type_text e.
Proof. reflexivity. Qed.

(** ** definitions *)
Definition ldef_of (sd : sdef) (s e : N) : ldef :=
  mk_ldef (sd_name sd) (sd_line sd) (sd_end_line sd) s e (sd_doc sd) (sd_ret sd) (sd_deps sd)
          (sd_scope sd) (sd_yield sd) (sd_autouse sd).

(** what the two hand-written yield walkers must agree with the spec on, per fixture *)
Definition yield_forms_ok (body : list stmt) : Prop :=
  contains_yield body = spec_is_generator body /\ find_yield_line body = spec_yield_line body.

(** everything about a definition except its name span *)
Definition ldef_core (l : ldef) :=
  (l_name l, l_line l, l_end_line l, l_doc l, l_ret l, l_deps l, l_scope l, l_yield l, l_autouse l).
Definition sdef_core (sd : sdef) :=
  (sd_name sd, sd_line sd, sd_end_line sd, sd_doc sd, sd_ret sd, sd_deps sd, sd_scope sd, sd_yield sd, sd_autouse sd).

Lemma item_defs_app a b : item_defs (a ++ b) = item_defs a ++ item_defs b.
Proof. unfold item_defs. apply flat_map_app. Qed.
Lemma item_defs_uses l : item_defs (map IUse l) = [].
Proof. induction l; cbn; auto. Qed.
Lemma item_defs_flat_uses {A} (f : A -> list lusage) l : item_defs (flat_map (fun d => map IUse (f d)) l) = [].
Proof. induction l as [|x l IH]; cbn [flat_map]; [reflexivity|]. now rewrite item_defs_app, item_defs_uses, IH. Qed.

Lemma deps_filter args :
  flat_map (fun a => if String.eqb (ar_name a) "self" || String.eqb (ar_name a) "request" || ar_default a then [] else [ar_name a]) args
  = map ar_name (filter (fun a => negb (String.eqb (ar_name a) "self" || String.eqb (ar_name a) "request" || ar_default a)) args).
Proof.
  induction args as [|a args IH]; cbn [flat_map filter map]; [reflexivity|].
  destruct (String.eqb (ar_name a) "self" || String.eqb (ar_name a) "request" || ar_default a); cbn [negb app map]; now rewrite IH.
Qed.

Lemma param_usages_no_defs b args : item_defs (param_usages b args) = [] .
Proof.
  unfold param_usages. induction args as [|a args IH]; cbn [flat_map]; [reflexivity|].
  rewrite item_defs_app, IH. destruct (_ || _); reflexivity.
Qed.

(** one function definition *)
Lemma function_defs content name decs args returns body line eline :
  (is_fixture_fn decs = true -> yield_forms_ok body) ->
  map ldef_core (item_defs (function_items content name decs args returns body line eline))
  = map sdef_core (spec_defs_of (SFunctionDef false name decs args returns body line eline)).
Proof.
  intros Hy. unfold function_items. rewrite !item_defs_app, !item_defs_flat_uses. cbn [app spec_defs_of].
  rewrite (find_ext _ _ decs is_fixture_decorator_spelling).
  destruct (List.find fixture_spelling decs) as [d|] eqn:Ef.
  - apply find_some in Ef as [Hin Hd].
    assert (Hfix : is_fixture_fn decs = true).
    { unfold is_fixture_fn. apply existsb_exists. eauto. }
    destruct (Hy Hfix) as [Hc Hl].
    assert (Hd' : is_fixture_decorator d = true) by now rewrite is_fixture_decorator_spelling.
    destruct (name_span content line name) as [s e].
    cbn [item_defs flat_map app]. rewrite item_defs_app, param_usages_no_defs. cbn [item_defs flat_map app map].
    unfold ldef_core, sdef_core. cbn [l_name l_line l_end_line l_doc l_ret l_deps l_scope l_yield l_autouse
                                     sd_name sd_line sd_end_line sd_doc sd_ret sd_deps sd_scope sd_yield sd_autouse].
    unfold fixture_name_from_decorator, fixture_scope, fixture_autouse.
    rewrite !(fixture_kw_deco d _ Hd'), find_map_name, find_map_scope, autouse_kws, deps_filter, Hl.
    assert (Hr : extract_return_type returns body = spec_return_text returns body).
    { unfold extract_return_type, spec_return_text. destruct returns as [r|]; [|reflexivity]. rewrite Hc.
      destruct (spec_is_generator body); reflexivity. }
    rewrite Hr. unfold first_or.
    destruct (kw_string (deco_kws d) "name"); destruct (flat_map _ (kw_string (deco_kws d) "scope")); reflexivity.
  - destruct (prefixb "test_" name); [|reflexivity].
    rewrite item_defs_app, param_usages_no_defs. reflexivity.
Qed.

Definition fixtures_ok (st : stmt) : Prop :=
  match st with
  | SFunctionDef _ _ decs _ _ body _ _ => is_fixture_fn decs = true -> yield_forms_ok body
  | _ => True
  end.

Lemma assign_targets line ts :
  map ldef_core (item_defs (flat_map (fun t => match t with
                                               | EName id _ c ec => [IDef (mk_ldef id line line c ec None None [] 0 None false)]
                                               | _ => []
                                               end) ts))
  = map sdef_core (flat_map (fun t => match t with
                                      | EName id _ _ _ => [mk_sdef id line line [] 0 false None None None]
                                      | _ => []
                                      end) ts).
Proof.
  induction ts as [|t ts IH]; cbn [flat_map]; [reflexivity|].
  rewrite item_defs_app, !map_app, IH. destruct t; reflexivity.
Qed.

(** every statement, classes nested to any depth *)
Fixpoint stmt_defs content (st : stmt) :
  Forall fixtures_ok (collected st) ->
  map ldef_core (item_defs (visit_stmt content st)) = map sdef_core (flat_map spec_defs_of (collected st)).
Proof.
  destruct st; intros Hok; cbn [collected flat_map app] in *; try reflexivity.
  - (* function *)
    rewrite app_nil_r. cbn [visit_stmt].
    inversion Hok as [|? ? H1 _]; subst.
    rewrite (function_defs content name decorators args returns body line eline H1).
    reflexivity.
  - (* class *)
    cbn [visit_stmt spec_defs_of app]. rewrite item_defs_app, item_defs_flat_uses. cbn [app].
    inversion Hok as [|? ? _ Hrest]; subst. clear Hok.
    revert body Hrest. fix go 1. intros [|x r] Hrest; cbn [flat_map]; [reflexivity|].
    rewrite item_defs_app, !flat_map_app, !map_app. apply Forall_app in Hrest as [Hx Hr].
    now rewrite (stmt_defs content x Hx), (go r Hr).
  - (* assignment *)
    rewrite app_nil_r. cbn [visit_stmt spec_defs_of]. rewrite item_defs_app.
    assert (E2 : item_defs (if existsb (is_name "pytestmark") targets then map IUse (usefixtures_from_expr content value) else []) = []).
    { destruct (existsb _ targets); [apply item_defs_uses|reflexivity]. }
    rewrite E2, app_nil_r. clear E2.
    destruct value; try reflexivity. destruct value; try reflexivity.
    rewrite is_fixture_decorator_spelling. destruct (fixture_spelling value); [|reflexivity].
    apply assign_targets.
  - (* annotated assignment *)
    cbn [visit_stmt spec_defs_of]. rewrite app_nil_r. destruct value; [|reflexivity].
    destruct (is_name "pytestmark" target); [now rewrite item_defs_uses|reflexivity].
Qed.

Theorem definitions_exact content m :
  Forall fixtures_ok (flat_map collected m) ->
  map ldef_core (item_defs (flat_map (visit_stmt content) m)) = map sdef_core (spec_defs m).
Proof.
  unfold spec_defs. induction m as [|st m IH]; intros H; cbn [flat_map]; [reflexivity|].
  apply Forall_app in H as [H1 H2].
  rewrite item_defs_app, flat_map_app, !map_app, (stmt_defs content st H1), (IH H2). reflexivity.
Qed.

(** ** nothing else produces an entry *)
Definition inert (st : stmt) : bool :=
  match st with
  | SFunctionDef _ _ _ _ _ _ _ _ | SClassDef _ _ _ | SAssign _ _ _ | SAnnAssign _ _ _ => false
  | _ => true
  end.
Theorem inert_statements_record_nothing content st : inert st = true -> visit_stmt content st = [].
Proof. destruct st; cbn; intros H; try discriminate; reflexivity. Qed.

(** a helper — neither a fixture nor a test, no marks — records nothing, whatever its
    parameters and whatever its body contains (nested functions, strings, yields, ...) *)
Theorem helpers_record_nothing content a name args returns body line eline decs :
  existsb fixture_spelling decs = false -> prefixb "test_" name = false ->
  (forall d, In d decs -> usefixtures_names content d = [] /\ indirect_fixtures content d = []) ->
  visit_stmt content (SFunctionDef a name decs args returns body line eline) = [].
Proof.
  intros Hf Ht Hm. cbn [visit_stmt]. unfold function_items.
  assert (E1 : flat_map (fun d => map IUse (usefixtures_names content d)) decs = []).
  { induction decs as [|d ds IH]; cbn [flat_map]; [reflexivity|].
    rewrite (proj1 (Hm d (or_introl eq_refl))), IH; [reflexivity| |].
    - cbn in Hf. apply orb_false_iff in Hf. tauto.
    - intros x Hx. apply Hm. now right. }
  assert (E2 : flat_map (fun d => map IUse (indirect_fixtures content d)) decs = []).
  { clear E1. induction decs as [|d ds IH]; cbn [flat_map]; [reflexivity|].
    rewrite (proj2 (Hm d (or_introl eq_refl))), IH; [reflexivity| |].
    - cbn in Hf. apply orb_false_iff in Hf. tauto.
    - intros x Hx. apply Hm. now right. }
  rewrite E1, E2. cbn [app].
  rewrite (find_ext _ _ decs is_fixture_decorator_spelling).
  destruct (List.find fixture_spelling decs) as [d|] eqn:Ef.
  - apply find_some in Ef as [Hin Hd]. exfalso.
    assert (X : existsb fixture_spelling decs = true) by (apply existsb_exists; eauto). congruence.
  - now rewrite Ht.
Qed.

(** the records of a fixture or test do not depend on what its body contains, except for
    the docstring / return type / yield line fields and the undeclared-fixture scan *)
Theorem body_only_feeds_the_scan content name decs args returns body1 body2 line eline :
  extract_docstring body1 = extract_docstring body2 ->
  extract_return_type returns body1 = extract_return_type returns body2 ->
  find_yield_line body1 = find_yield_line body2 ->
  filter (fun it => match it with IBody _ => false | _ => true end)
         (function_items content name decs args returns body1 line eline)
  = filter (fun it => match it with IBody _ => false | _ => true end)
           (function_items content name decs args returns body2 line eline).
Proof.
  intros Hd Hr Hy. unfold function_items. rewrite !filter_app. f_equal. f_equal.
  destruct (List.find is_fixture_decorator decs).
  - destruct (name_span content line name). cbn [filter]. rewrite Hd, Hr, Hy. f_equal.
    rewrite !filter_app. f_equal.
  - destruct (prefixb "test_" name); [|reflexivity]. rewrite !filter_app. f_equal.
Qed.

(** ** requests *)
Definition use_key (u : lusage) : string * N := (lu_name u, lu_line u).

Lemma item_uses_app a b : item_uses (a ++ b) = item_uses a ++ item_uses b.
Proof. unfold item_uses. apply flat_map_app. Qed.
Lemma item_uses_map l : item_uses (map IUse l) = l.
Proof. induction l as [|x l IH]; cbn; [reflexivity|]. now f_equal. Qed.

Lemma usefixtures_names_marks (content : text) d : map use_key (usefixtures_names content d) = mark_strings "usefixtures" d.
Proof.
  destruct d; try reflexivity. cbn [usefixtures_names mark_strings]. rewrite is_mark_spelling.
  destruct (mark_spelling "usefixtures" d); [|reflexivity].
  induction args as [|a args IH]; cbn [flat_map map]; [reflexivity|].
  rewrite map_app, IH. destruct a; reflexivity.
Qed.

Lemma expr_size_pos e : (0 < expr_size e)%nat.
Proof. destruct e; cbn; lia. Qed.

Lemma fold_size_ge l x : In x l -> (expr_size x <= fold_right (fun y a => expr_size y + a) 0 l)%nat.
Proof.
  induction l as [|y l IH]; [contradiction|]. intros [->|H]; cbn [fold_right]; [lia|].
  specialize (IH H). lia.
Qed.

Fixpoint usefixtures_from_expr_marks (content : text) (e : expr) :
  forall fuel, (expr_size e <= fuel)%nat -> map use_key (usefixtures_from_expr content e) = mark_strings_in fuel e.
Proof.
  intros fuel Hf. destruct fuel as [|fuel]; [pose proof (expr_size_pos e); lia|].
  destruct e; try reflexivity.
  - cbn [usefixtures_from_expr mark_strings_in]. apply usefixtures_names_marks.
  - cbn [usefixtures_from_expr mark_strings_in]. cbn [expr_size] in Hf. apply le_S_n in Hf.
    revert elts Hf. fix go 1. intros [|x r] Hf; cbn [flat_map map]; [reflexivity|].
    cbn [fold_right] in Hf. rewrite map_app.
    rewrite (usefixtures_from_expr_marks content x fuel), (go r); [reflexivity| |].
    + lia.
    + lia.
  - cbn [usefixtures_from_expr mark_strings_in]. cbn [expr_size] in Hf. apply le_S_n in Hf.
    revert elts Hf. fix go 1. intros [|x r] Hf; cbn [flat_map map]; [reflexivity|].
    cbn [fold_right] in Hf. rewrite map_app.
    rewrite (usefixtures_from_expr_marks content x fuel), (go r); [reflexivity| |].
    + lia.
    + lia.
Qed.

Lemma flat_marks (content : text) decs :
  map use_key (item_uses (flat_map (fun d => map IUse (usefixtures_names content d)) decs))
  = flat_map (mark_strings "usefixtures") decs.
Proof.
  induction decs as [|d ds IH]; cbn [flat_map]; [reflexivity|].
  now rewrite item_uses_app, item_uses_map, map_app, usefixtures_names_marks, IH.
Qed.
(** name and line of an indirect usage do not depend on the text (only its columns do) *)
Lemma indirect_keys (content : text) d :
  map use_key (indirect_fixtures content d) = map (fun u => (lu_name u, lu_line u)) (indirect_fixtures [] d).
Proof.
  destruct d; try reflexivity. unfold indirect_fixtures.
  destruct (is_mark "parametrize" d); [|reflexivity].
  destruct (find_map _ kws) as [ind|]; [|reflexivity].
  destruct args as [|a0 args]; [reflexivity|]. destruct a0; try reflexivity.
  destruct ind; try reflexivity.
  - destruct b; [|reflexivity]. rewrite !map_map. reflexivity.
  - induction elts as [|x r IH]; cbn [flat_map map]; [reflexivity|].
    rewrite !map_app, IH. f_equal. destruct x; try reflexivity.
    destruct (mem_str _ _); reflexivity.
Qed.
Lemma flat_indirect (content : text) decs :
  map use_key (item_uses (flat_map (fun d => map IUse (indirect_fixtures content d)) decs))
  = flat_map (fun d => map (fun u => (lu_name u, lu_line u)) (indirect_fixtures [] d)) decs.
Proof.
  induction decs as [|d ds IH]; cbn [flat_map]; [reflexivity|].
  now rewrite item_uses_app, item_uses_map, map_app, IH, indirect_keys.
Qed.

Lemma param_requests skip args :
  map use_key (item_uses (param_usages skip args))
  = flat_map (fun a => if String.eqb (ar_name a) "self" || (skip && String.eqb (ar_name a) "request") || (true && ar_default a)
                       then [] else [(ar_name a, ar_line a)]) args.
Proof.
  unfold param_usages. induction args as [|a args IH]; cbn [flat_map]; [reflexivity|].
  rewrite item_uses_app, map_app, IH. cbn [andb].
  destruct (String.eqb (ar_name a) "self" || (skip && String.eqb (ar_name a) "request") || ar_default a); reflexivity.
Qed.

Lemma function_requests content a name decs args returns body line eline :
  map use_key (item_uses (function_items content name decs args returns body line eline))
  = spec_requests_of true (SFunctionDef a name decs args returns body line eline).
Proof.
  unfold function_items. cbn [spec_requests_of]. rewrite !item_uses_app, !map_app, flat_marks, flat_indirect.
  f_equal. f_equal. unfold is_fixture_fn.
  rewrite (find_ext _ _ decs is_fixture_decorator_spelling).
  destruct (List.find fixture_spelling decs) as [d|] eqn:Ef.
  - assert (X : existsb fixture_spelling decs = true).
    { apply find_some in Ef as [H1 H2]. apply existsb_exists. eauto. }
    rewrite X. cbn [orb andb]. destruct (name_span content line name).
    cbn [item_uses flat_map app]. rewrite item_uses_app. cbn [item_uses flat_map body_item app]. rewrite app_nil_r.
    rewrite (param_requests true). apply flat_map_ext. intros x. now rewrite andb_true_l.
  - assert (X : existsb fixture_spelling decs = false).
    { destruct (existsb fixture_spelling decs) eqn:E; [|reflexivity].
      apply existsb_exists in E as [x [H1 H2]]. pose proof (find_none _ _ Ef x H1). congruence. }
    rewrite X. cbn [orb andb]. destruct (prefixb "test_" name); [|reflexivity].
    rewrite item_uses_app. cbn [item_uses flat_map body_item app]. rewrite app_nil_r.
    rewrite (param_requests false). apply flat_map_ext. intros x. now rewrite andb_false_l, orb_false_r.
Qed.

Fixpoint stmt_requests content (st : stmt) :
  map use_key (item_uses (visit_stmt content st)) = flat_map (spec_requests_of true) (collected st).
Proof.
  destruct st; cbn [collected flat_map app]; try reflexivity.
  - rewrite app_nil_r. cbn [visit_stmt]. apply function_requests.
  - cbn [visit_stmt spec_requests_of]. rewrite item_uses_app, map_app, flat_marks. f_equal.
    revert body. fix go 1. intros [|x r]; cbn [flat_map]; [reflexivity|].
    now rewrite item_uses_app, map_app, flat_map_app, (stmt_requests content x), (go r).
  - rewrite app_nil_r. cbn [visit_stmt spec_requests_of]. rewrite item_uses_app, map_app.
    assert (E1 : item_uses (match value with
                            | ECall (ECall f _ _) _ _ =>
                                if is_fixture_decorator f
                                then flat_map (fun t => match t with
                                                        | EName id _ c ec => [IDef (mk_ldef id line line c ec None None [] 0 None false)]
                                                        | _ => []
                                                        end) targets
                                else []
                            | _ => []
                            end) = []).
    { destruct value; try reflexivity. destruct value; try reflexivity.
      destruct (is_fixture_decorator value); [|reflexivity].
      induction targets as [|t ts IH]; cbn [flat_map]; [reflexivity|]. rewrite item_uses_app, IH. destruct t; reflexivity. }
    rewrite E1. cbn [map app].
    destruct (existsb (is_name "pytestmark") targets); [|reflexivity].
    rewrite item_uses_map. apply usefixtures_from_expr_marks. lia.
  - cbn [visit_stmt spec_requests_of]. rewrite app_nil_r. destruct value as [v|]; [|reflexivity].
    destruct (is_name "pytestmark" target); [|reflexivity].
    rewrite item_uses_map. apply usefixtures_from_expr_marks. lia.
Qed.

Theorem requests_exact content m :
  map use_key (item_uses (flat_map (visit_stmt content) m)) = spec_requests true m.
Proof.
  unfold spec_requests. induction m as [|st m IH]; cbn [flat_map]; [reflexivity|].
  now rewrite item_uses_app, map_app, flat_map_app, stmt_requests, IH.
Qed.
