(** * Proofs/Invariants: facts that hold in every state reachable by any sequence of
    analyses (with or without cleanup, valid or unparsable), closes and plugin marks. *)
From PLS Require Import Check.Verdict Proofs.Basics.
From Coq Require Import Lia.

Definition run_ops (ops : list wop) : index := fold_left apply_wop ops empty_index.

(** generic induction principle over reachable states *)
Lemma reachable_ind (P : index -> Prop) :
  P empty_index ->
  (forall s o, P s -> P (apply_wop s o)) ->
  forall ops, P (run_ops ops).
Proof.
  intros H0 Hstep ops. unfold run_ops.
  assert (G : forall s, P s -> P (fold_left apply_wop ops s)).
  { induction ops as [|o ops IH]; intros s Hs; cbn; [exact Hs|]. apply IH, Hstep, Hs. }
  apply G, H0.
Qed.

(** ** I1 — the reverse usage index mirrors the per-file usage map *)
Definition mirror (s : index) : Prop := usage_by s = usages s.

Lemma visit_item_mirror F s it : mirror s -> mirror (visit_item F s it).
Proof.
  unfold mirror. destruct it as [u|l|b]; cbn.
  - intros ->. reflexivity.
  - intros H. unfold record_def. cbn.
    destruct (existsb _ _); cbn; exact H.
  - intros H. exact H.
Qed.

Lemma fold_visit_mirror F items s : mirror s -> mirror (fold_left (visit_item F) items s).
Proof. revert s; induction items as [|it items IH]; intros s H; cbn; [exact H|]. apply IH, visit_item_mirror, H. Qed.

Lemma analyze_mirror c F v s : mirror s -> mirror (analyze c F v s).
Proof.
  intros H. unfold analyze. destruct (negb (f_ok v)); [exact H|].
  apply fold_visit_mirror. unfold mirror in *. destruct c; cbn; now rewrite H.
Qed.

Lemma close_mirror F s : mirror s -> mirror (close F s).
Proof. intros H; exact H. Qed.

Lemma mark_plugin_mirror F s : mirror s -> mirror (mark_plugin F s).
Proof. unfold mark_plugin. destruct (mem_path F (plugin_files s)); intros H; exact H. Qed.

Theorem mirror_reachable ops : mirror (run_ops ops).
Proof.
  apply reachable_ind; [reflexivity|].
  intros s [c F v|F|F] H; cbn; [now apply analyze_mirror|now apply close_mirror|now apply mark_plugin_mirror].
Qed.

(** ** I2 — every definition is covered by the file_definitions reverse index
    (what makes the cleanup of a re-analysis complete) *)
Definition covered (s : index) : Prop :=
  forall d, In d (defs s) -> In (d_file d, d_name d) (file_defs s).

Lemma record_def_covered F l s : covered s -> covered (record_def F l s).
Proof.
  intros H d. unfold record_def.
  destruct (existsb (fun fn => path_eqb (fst fn) F && String.eqb (snd fn) (l_name l))
                    (file_defs (set_defs s (defs s ++ [attach s F l])))) eqn:E; cbn in *; intros Hin.
  - apply in_app_or in Hin as [Hin|[<-|[]]]; [apply H, Hin|].
    cbn [attach d_file d_name]. apply existsb_exists in E as [[p nm] [Hx Hc]]. cbn in Hc.
    apply andb_prop in Hc as [Hp Hn]. apply path_eqb_eq in Hp. apply String.eqb_eq in Hn. now subst.
  - apply in_app_or in Hin as [Hin|[<-|[]]]; apply in_or_app; [left; apply H, Hin|].
    right. now left.
Qed.

Lemma visit_item_covered F s it : covered s -> covered (visit_item F s it).
Proof.
  destruct it as [u|l|b]; cbn.
  - intros H d Hd. exact (H d Hd).
  - apply record_def_covered.
  - intros H d Hd. exact (H d Hd).
Qed.

Lemma fold_visit_covered F items s : covered s -> covered (fold_left (visit_item F) items s).
Proof. revert s; induction items as [|it items IH]; intros s H; cbn; [exact H|]. apply IH, visit_item_covered, H. Qed.

Lemma file_def_names_in s F d :
  covered s -> In d (defs s) -> d_file d = F -> mem_str (d_name d) (file_def_names s F) = true.
Proof.
  intros H Hd Ef. apply mem_str_in. unfold file_def_names. apply in_map_iff.
  exists (d_file d, d_name d). split; [reflexivity|].
  apply filter_In. split; [apply H, Hd|]. cbn [fst]. rewrite Ef. apply path_eqb_refl.
Qed.

Lemma cleanup_defs_covered F s : covered s -> covered (cleanup_defs F s).
Proof.
  intros H d. unfold cleanup_defs. cbn [defs file_defs set_defs set_file_defs]. intros Hd.
  apply filter_In in Hd as [Hd Hk].
  apply filter_In. split; [apply H, Hd|]. cbn [fst].
  destruct (path_eqb (d_file d) F) eqn:Ef; [|reflexivity]. exfalso.
  apply path_eqb_eq in Ef.
  rewrite (file_def_names_in s F d H Hd Ef) in Hk. discriminate.
Qed.

Lemma analyze_covered c F v s : covered s -> covered (analyze c F v s).
Proof.
  intros H. unfold analyze. destruct (negb (f_ok v)); [exact H|].
  apply fold_visit_covered. destruct c.
  - intros d Hd. exact (cleanup_defs_covered F _ H d Hd).
  - exact H.
Qed.

Theorem covered_reachable ops : covered (run_ops ops).
Proof.
  apply reachable_ind; [intros d []|].
  intros s [c F v|F|F] H; cbn; [now apply analyze_covered|exact H|].
  unfold mark_plugin. destruct (mem_path F (plugin_files s)); exact H.
Qed.

(** consequence: a cleaning re-analysis removes every definition the file had *)
Lemma cleanup_defs_complete F s :
  covered s -> forall d, In d (defs (cleanup_defs F s)) -> d_file d <> F.
Proof.
  intros H d Hd. unfold cleanup_defs in Hd. cbn [defs set_defs set_file_defs] in Hd.
  apply filter_In in Hd as [Hd Hk]. intros Ef.
  rewrite (file_def_names_in s F d H Hd Ef) in Hk. rewrite Ef, path_eqb_refl in Hk. discriminate.
Qed.
