(** * Proofs for C13: the scan's file selection equals the traversal-independent spec,
    for every tree and every exclude oracle; it does not depend on where the root
    lives; an unreadable file drops out alone. *)
From Coq Require Import Lia.
From PLS Require Import Spec.Discovery Proofs.Basics.

(** ** induction over trees (nested through [list]) *)
Section TreeInd.
  Variable P : tree -> Prop.
  Hypothesis Hf : forall n u, P (TFile n u).
  Hypothesis Hd : forall n cs, Forall P cs -> P (TDir n cs).
  Fixpoint tree_ind' (t : tree) : P t :=
    match t with
    | TFile n u => Hf n u
    | TDir n cs =>
        Hd n cs ((fix go (l : list tree) : Forall P l :=
                    match l with
                    | [] => Forall_nil P
                    | x :: l' => Forall_cons x (tree_ind' x) (go l')
                    end) cs)
    end.
End TreeInd.

(** ** list facts *)
Lemma filter_flat_map {A B} (p : B -> bool) (f : A -> list B) l :
  filter p (flat_map f l) = flat_map (fun x => filter p (f x)) l.
Proof.
  induction l as [|x l IH]; cbn; [reflexivity|].
  rewrite <- IH. clear IH. induction (f x) as [|y ys IHy]; cbn; [reflexivity|].
  destruct (p y); cbn; now rewrite IHy.
Qed.
Lemma flat_map_ext_Forall {A B} (P : A -> Prop) (f g : A -> list B) l :
  Forall P l -> (forall x, P x -> f x = g x) -> flat_map f l = flat_map g l.
Proof. induction 1 as [|x l Hx _ IH]; intros H; cbn; [reflexivity|]. now rewrite (H x Hx), IH. Qed.
Lemma filter_filter_and {A} (p q : A -> bool) l : filter p (filter q l) = filter (fun x => q x && p x) l.
Proof. induction l as [|x l IH]; cbn; [reflexivity|]. destruct (q x); cbn; [destruct (p x)|]; now rewrite IH. Qed.
Lemma filter_ext' {A} (p q : A -> bool) l : (forall x, In x l -> p x = q x) -> filter p l = filter q l.
Proof.
  induction l as [|x l IH]; intros H; cbn; [reflexivity|].
  rewrite (H x (or_introl eq_refl)), IH; [reflexivity|]. intros y Hy. apply H. now right.
Qed.

Lemma filter_all_false {A} (p : A -> bool) l : (forall x, In x l -> p x = false) -> filter p l = [].
Proof.
  induction l as [|x l IH]; intros H; cbn; [reflexivity|].
  rewrite (H x (or_introl eq_refl)). apply IH. intros y Hy. apply H. now right.
Qed.

(** ** every path below [rel] ends with [rel] *)
Lemma all_files_suffix t : forall rel p u, In (p, u) (all_files rel t) -> exists n pre, p = n :: pre ++ rel.
Proof.
  induction t as [n u0|n cs IH] using tree_ind'; intros rel p u H.
  - cbn in H. destruct H as [H|[]]. injection H as <- _. now exists n, [].
  - cbn [all_files] in H. apply in_flat_map in H as [c [Hc Hp]].
    rewrite Forall_forall in IH. destruct (IH c Hc (n :: rel) p u Hp) as [m [pre ->]].
    exists m, (pre ++ [n]). now rewrite <- app_assoc.
Qed.

(** ** pruning = filtering on the directory components *)
Definition dirs_ok (pu : path * bool) : bool := negb (existsb should_skip_directory (tl (fst pu))).

Lemma walk_is_filter t : forall rel,
  existsb should_skip_directory rel = false ->
  walk rel t = filter dirs_ok (all_files rel t).
Proof.
  induction t as [n u0|n cs IH] using tree_ind'; intros rel Hrel.
  - cbn. unfold dirs_ok. cbn [fst tl]. now rewrite Hrel.
  - cbn [walk all_files]. destruct (should_skip_directory n) eqn:En.
    + symmetry. apply filter_all_false. intros [p u] Hp. unfold dirs_ok. cbn [fst].
      apply in_flat_map in Hp as [c [_ Hp]].
      destruct (all_files_suffix c (n :: rel) p u Hp) as [m [pre ->]]. cbn [tl].
      rewrite existsb_app. cbn [existsb]. rewrite En. now rewrite orb_true_r.
    + rewrite filter_flat_map. apply (flat_map_ext_Forall _ _ _ cs IH).
      intros c Hc. apply Hc. cbn [existsb]. now rewrite En, Hrel.
Qed.

(** ** table facts (re-checked against the regenerated Tables.v on every run) *)
Lemma prefixb_app_l a b r : prefixb (a ++ b) r = true -> prefixb a r = true.
Proof.
  revert r. induction a as [|x a IH]; intros r H; [destruct r; reflexivity|].
  destruct r as [|y r]; [discriminate|]. cbn in *. apply andb_prop in H as [H1 H2]. now rewrite H1, (IH r H2).
Qed.

Lemma test_name_ends_py n : is_test_file_name n = true -> n = "conftest.py" \/ suffixb ".py" n = true.
Proof.
  unfold is_test_file_name. intros H.
  apply orb_prop in H as [H|H]; [apply orb_prop in H as [H|H]|].
  - left. apply andb_prop in H as [_ H]. now apply String.eqb_eq.
  - right. apply andb_prop in H as [_ H]. exact H.
  - right. apply andb_prop in H as [_ H]. unfold suffixb in *.
    change (str_rev "_test.py") with (str_rev ".py" ++ "tset_")%string in H.
    exact (prefixb_app_l _ _ _ H).
Qed.

Lemma table_has_no_py_name : forallb (fun d => negb (suffixb ".py" d)) skip_directories = true.
Proof. vm_compute. reflexivity. Qed.
Lemma conftest_not_skipped : should_skip_directory "conftest.py" = false.
Proof. vm_compute. reflexivity. Qed.
Lemma egg_suffix_is : egg_info_suffix = ".egg-info".
Proof. reflexivity. Qed.

Lemma py_not_egg n : suffixb ".py" n = true -> suffixb ".egg-info" n = false.
Proof.
  unfold suffixb. change (str_rev ".py") with "yp."%string. change (str_rev ".egg-info") with "ofni-gge."%string.
  destruct (str_rev n) as [|a r]; [discriminate|]. cbn [prefixb].
  intros H. apply andb_prop in H as [H _]. apply Ascii.eqb_eq in H. subst a. reflexivity.
Qed.

Lemma test_name_not_skipped n : is_test_file_name n = true -> should_skip_directory n = false.
Proof.
  intros H. destruct (test_name_ends_py n H) as [->|Hpy]; [exact conftest_not_skipped|].
  unfold should_skip_directory. unfold egg_info_suffix. rewrite (py_not_egg n Hpy), orb_false_r.
  destruct (mem_str n skip_directories) eqn:E; [|reflexivity].
  apply mem_str_in in E. pose proof table_has_no_py_name as T.
  rewrite forallb_forall in T. specialize (T n E). now rewrite Hpy in T.
Qed.

Lemma test_name_is_pytest_name n : is_test_file_name n = pytest_file_name n.
Proof. reflexivity. Qed.
Lemma ignored_is_skip n : ignored_dir n = should_skip_directory n.
Proof. reflexivity. Qed.

(** ** the theorem *)
Theorem selected_exact excl cs : selected excl cs = spec_selected excl cs.
Proof.
  unfold selected, spec_selected.
  assert (E : flat_map (walk []) cs = filter dirs_ok (flat_map (all_files []) cs)).
  { rewrite filter_flat_map. apply flat_map_ext. intros t. now apply walk_is_filter. }
  rewrite E, filter_filter_and. apply filter_ext'. intros [p u] _. unfold dirs_ok, keep. cbn [fst].
  destruct p as [|n dirs]; [now rewrite !andb_false_r|]. cbn [tl existsb].
  change (pytest_file_name n) with (is_test_file_name n).
  destruct (is_test_file_name n) eqn:En; [|now rewrite !andb_false_r].
  rewrite (test_name_not_skipped n En). cbn [orb andb].
  assert (Ei : existsb ignored_dir dirs = existsb should_skip_directory dirs) by reflexivity.
  change (existsb ignored_dir dirs) with (existsb should_skip_directory dirs). destruct (existsb should_skip_directory dirs), (excl (n :: dirs)); reflexivity.
Qed.

(** ** relocation: the code works on absolute paths; expressed relative to the root the
    outcome is the same for every root *)
Definition absolute (abs_root : path) (ps : list path) : list path := map (fun p => p ++ abs_root) ps.
Fixpoint strip_root (abs_root p : path) : option path :=
  if path_eqb p abs_root then Some [] else
  match p with
  | [] => None
  | n :: p' => match strip_root abs_root p' with Some r => Some (n :: r) | None => None end
  end.

Lemma app_neq_self {A} (x : A) (l r : list A) : x :: l ++ r <> r.
Proof.
  intros H. apply (f_equal (@length A)) in H. cbn in H. rewrite app_length in H. lia.
Qed.

Lemma strip_root_app abs_root p : strip_root abs_root (p ++ abs_root) = Some p.
Proof.
  induction p as [|n p IH]; cbn [app strip_root].
  - destruct abs_root; cbn [strip_root]; now rewrite path_eqb_refl.
  - destruct (path_eqb (n :: p ++ abs_root) abs_root) eqn:E.
    + apply path_eqb_eq in E. exfalso. exact (app_neq_self n p abs_root E).
    + now rewrite IH.
Qed.

Theorem relocation_invariant excl cs r1 r2 :
  map (strip_root r1) (absolute r1 (analysed excl cs)) = map (strip_root r2) (absolute r2 (analysed excl cs)).
Proof.
  unfold absolute. rewrite !map_map.
  transitivity (map (@Some path) (analysed excl cs)); [|symmetry]; apply map_ext; intros p; apply strip_root_app.
Qed.

(** ** fault isolation: making some files unreadable removes exactly those files *)
Fixpoint break_tree (bad : path -> bool) (rel : path) (t : tree) : tree :=
  match t with
  | TFile n u => TFile n (u && negb (bad (n :: rel)))
  | TDir n cs => TDir n (map (break_tree bad (n :: rel)) cs)
  end.

Lemma walk_break bad t : forall rel,
  walk rel (break_tree bad rel t) = map (fun pu => (fst pu, snd pu && negb (bad (fst pu)))) (walk rel t).
Proof.
  induction t as [n u0|n cs IH] using tree_ind'; intros rel; [reflexivity|].
  cbn [break_tree walk]. destruct (should_skip_directory n); [reflexivity|].
  rewrite flat_map_concat_map, map_map, <- flat_map_concat_map.
  induction IH as [|c cs Hc _ IHcs]; cbn [flat_map map]; [reflexivity|].
  now rewrite map_app, Hc, IHcs.
Qed.

Theorem fault_isolation excl bad cs :
  analysed excl (map (break_tree bad []) cs) = filter (fun p => negb (bad p)) (analysed excl cs).
Proof.
  unfold analysed, selected.
  assert (E : flat_map (walk []) (map (break_tree bad []) cs)
              = map (fun pu => (fst pu, snd pu && negb (bad (fst pu)))) (flat_map (walk []) cs)).
  { induction cs as [|c cs IH]; cbn [flat_map map]; [reflexivity|]. now rewrite map_app, walk_break, IH. }
  rewrite E. generalize (flat_map (walk []) cs). intros l.
  induction l as [|[p u] l IH]; cbn [map filter fst snd]; [reflexivity|].
  destruct (keep excl p); cbn [filter snd map fst]; [|exact IH].
  destruct u; cbn [andb filter map fst snd].
  - destruct (bad p); cbn [negb filter map fst]; now rewrite IH.
  - exact IH.
Qed.

(** ** the ignored-directory table covers the classes the property names *)
Lemma skip_table_complete : forallb should_skip_directory documented_ignored = true.
Proof. vm_compute. reflexivity. Qed.
Lemma egg_info_skipped : forall n, should_skip_directory (n ++ ".egg-info") = true.
Proof.
  intros n. unfold should_skip_directory. unfold egg_info_suffix.
  assert (H : forall a acc, str_rev_app (a ++ ".egg-info") acc = str_rev_app ".egg-info" (str_rev_app a acc)).
  { induction a as [|x a IH]; intros acc; cbn; [reflexivity|]. apply IH. }
  unfold suffixb, str_rev. rewrite H. cbn. now rewrite orb_true_r.
Qed.

(** ** what the fixes repaired *)
Definition demo_tree : list tree := [TDir "tests" [TFile "test_a.py" true; TFile "conftest.py" true]].
Lemma selected_old_refuted :
  map fst (selected_old (fun _ => false) ["proj"; "build"; "home"] demo_tree) = []
  /\ map fst (selected_old (fun _ => false) ["proj"; "work"; "home"] demo_tree)
     = [["test_a.py"; "tests"]; ["conftest.py"; "tests"]]
  /\ map fst (selected (fun _ => false) demo_tree) = [["test_a.py"; "tests"]; ["conftest.py"; "tests"]].
Proof. repeat split; vm_compute; reflexivity. Qed.
Lemma selected_old_root_name_refuted :
  map fst (selected_old (fun _ => false) ["env"; "home"] demo_tree) = [].
Proof. vm_compute. reflexivity. Qed.
Lemma third_party_old_refuted :
  third_party_old ["proj"; "my-site-packages-mirror"; "home"] ["conftest.py"; "tests"] = true
  /\ third_party_rel ["conftest.py"; "tests"] = false.
Proof. split; vm_compute; reflexivity. Qed.
