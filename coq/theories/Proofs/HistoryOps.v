(** * History independence with everything an editor session does in between (C06).
    [Proofs/History.v] proves that after any sequence of analyses the persistent maps are a
    function of the latest valid contents.  A session also CLOSES documents (and opens them
    again later, with the same or with a changed text), asks queries (each leaving memo
    entries) and asks for cycles.  None of these touches the persistent maps, so the theorem
    holds for every interleaving of all of them: the index is the canonical index of the
    latest valid version of each file that was ever analysed, closed in between or not. *)
From Coq Require Import Lia.
From PLS Require Import Check.C07 Model.Diagnostics Model.History Proofs.Basics Proofs.History
                        Proofs.CacheValid Proofs.WarmCold Proofs.ImportsComplete.

Section HistoryOps.
  Variable dk : disk.
  Variable roots : list path.

  Inductive hop :=
  | HAnalyze (F : path) (v : facts)     (* didOpen / didChange: a cleaning analysis *)
  | HClose (F : path)                   (* didClose *)
  | HQuery (q : aq)                     (* any of the memoising queries *)
  | HCycles.                            (* cycle detection *)

  Definition apply_hop (s : index) (o : hop) : index :=
    match o with
    | HAnalyze F v => analyze true F v s
    | HClose F => close F s
    | HQuery q => post_aq7 dk roots s q
    | HCycles => post_cycles dk roots s
    end.
  Definition run_ops (s0 : index) (ops : list hop) : index := fold_left apply_hop ops s0.

  Definition analyses (ops : list hop) : hist :=
    flat_map (fun o => match o with HAnalyze F v => [(F, v)] | _ => [] end) ops.

  Lemma same_base_persistent s s' : same_base s s' -> persistent_of s' = persistent_of s.
  Proof. intros H. apply (f_equal persistent_of) in H. exact H. Qed.

  (** the cycle query leaves the base state alone (no hypothesis on the memos needed) *)
  Lemma post_cycles_base s : same_base s (post_cycles dk roots s).
  Proof.
    unfold post_cycles. destruct (cyc_hit s); [reflexivity|].
    match goal with |- same_base s (set_cyc_cache ?x _) => assert (B : same_base s x) end.
    { generalize (nodes s). intros ns.
      assert (Inner : forall d deps s0,
                same_base s0 (fold_left (fun s n =>
                                if String.eqb n (d_name d)
                                then post_closest_with dk roots s (fun x => negb (fdef_eqb x d)) (d_file d) n
                                else post_closest_with dk roots s (fun _ => true) (d_file d) n) deps s0)).
      { intros d. induction deps as [|n deps IH]; intros s0; cbn [fold_left]; [reflexivity|].
        unfold same_base in *. rewrite IH.
        destruct (String.eqb n (d_name d)); apply touch_base. }
      revert s. induction ns as [|d ns IH]; intros s0; cbn [fold_left]; [reflexivity|].
      unfold same_base in *. rewrite IH. apply Inner. }
    unfold same_base in *. exact B.
  Qed.

  Lemma apply_hop_agrees P s lv o :
    agrees P s lv ->
    agrees P (apply_hop s o) (match o with HAnalyze F v => lv_step lv (F, v) | _ => lv end).
  Proof.
    intros H. destruct o as [F v|F|q|]; cbn [apply_hop].
    - now apply analyze_agrees.
    - exact H.
    - unfold agrees in *. now rewrite (same_base_persistent _ _ (post_aq7_base dk roots s q)).
    - unfold agrees in *. now rewrite (same_base_persistent _ _ (post_cycles_base s)).
  Qed.

  Lemma last_valid_analyses_step acc o :
    fold_left lv_step (match o with HAnalyze F v => [(F, v)] | _ => [] end) acc
    = match o with HAnalyze F v => lv_step acc (F, v) | _ => acc end.
  Proof. destruct o; reflexivity. Qed.

  Theorem run_ops_agrees P ops : agrees P (run_ops (start P) ops) (last_valid (analyses ops)).
  Proof.
    unfold run_ops, last_valid, analyses.
    assert (G : forall s lv, agrees P s lv ->
              agrees P (fold_left apply_hop ops s)
                     (fold_left lv_step (flat_map (fun o => match o with HAnalyze F v => [(F, v)] | _ => [] end) ops) lv)).
    { induction ops as [|o ops IH]; intros s lv H; cbn [fold_left flat_map]; [exact H|].
      rewrite fold_left_app, last_valid_analyses_step. apply IH. now apply apply_hop_agrees. }
    apply G. reflexivity.
  Qed.

  (** the long-lived server, whatever it was asked and whatever was closed in between, holds
      the index of a server started fresh on the latest valid contents *)
  Theorem session_equals_fresh P ops :
    persistent_of (run_ops (start P) ops) = persistent_of (run_hist (start P) (last_valid (analyses ops))).
  Proof.
    pose proof (run_ops_agrees P ops) as A. pose proof (run_hist_agrees P (last_valid (analyses ops))) as B.
    unfold agrees in *. rewrite A, B. f_equal. symmetry. apply last_valid_idempotent, last_valid_wf.
  Qed.

  (** closing a document and opening it again with the very same text changes nothing *)
  Corollary close_reopen_same_text P ops F v :
    f_ok v = true ->
    persistent_of (run_ops (start P) (ops ++ [HAnalyze F v; HClose F; HAnalyze F v]))
    = persistent_of (run_ops (start P) (ops ++ [HAnalyze F v])).
  Proof.
    intros Ok. pose proof (run_ops_agrees P (ops ++ [HAnalyze F v; HClose F; HAnalyze F v])) as A.
    pose proof (run_ops_agrees P (ops ++ [HAnalyze F v])) as B. unfold agrees in *. rewrite A, B. f_equal.
    unfold analyses. rewrite !flat_map_app. cbn [flat_map app]. unfold last_valid. rewrite !fold_left_app.
    cbn [fold_left]. unfold lv_step at 1 2 4. cbn [fst snd]. rewrite Ok.
    set (acc := fold_left lv_step _ []).
    assert (E : aremove F (aremove F acc ++ [(F, v)]) = aremove F acc).
    { unfold aremove. rewrite filter_app. cbn [filter fst]. rewrite path_eqb_refl. cbn [negb]. rewrite app_nil_r.
      induction acc as [|x acc IH]; cbn [filter]; [reflexivity|].
      destruct (negb (path_eqb (fst x) F)) eqn:E; cbn [filter]; [rewrite E; now rewrite IH|exact IH]. }
    now rewrite E.
  Qed.
End HistoryOps.
