(** * Proofs about the text functions: no input makes them panic or loop. *)
From Coq Require Import Arith Lia ZifyBool ZifyNat ZifyN.
From PLS Require Import Model.TextFns.

Local Open Scope N_scope.

(** ** basics *)
Lemma width_pos c : 1 <= width c.
Proof. unfold width. destruct (c <? 128), (c <? 2048), (c <? 65536); lia. Qed.

Lemma len_cons {A} (x : A) l : len (x :: l) = len l + 1.
Proof. unfold len. cbn [length]. lia. Qed.
Lemma len_nil {A} : len (@nil A) = 0.
Proof. reflexivity. Qed.

Lemma nth_opt_lt {A} (l : list A) i : i < len l -> exists x, nth_opt l i = Some x.
Proof.
  unfold nth_opt, len. intros H.
  destruct (nth_error l (N.to_nat i)) eqn:E; [eauto|].
  apply nth_error_None in E. lia.
Qed.
Lemma idx_lt {A} (l : list A) i : i < len l -> exists x, idx l i = Ok x.
Proof. intros H. destruct (nth_opt_lt l i H) as [x Hx]. exists x. unfold idx. now rewrite Hx. Qed.

Lemma blen_app a b : blen (a ++ b) = blen a + blen b.
Proof. induction a as [|c a IH]; cbn [blen app]; [lia|]. rewrite IH. lia. Qed.

Lemma trim_start_suffix s : exists p, s = p ++ trim_start s.
Proof.
  induction s as [|c s IH]; [now exists []|]. cbn [trim_start].
  destruct (is_ws c); [|now exists []].
  destruct IH as [p Hp]. exists (c :: p). cbn [app]. now rewrite <- Hp.
Qed.
Lemma blen_trim_start_le s : blen (trim_start s) <= blen s.
Proof.
  destruct (trim_start_suffix s) as [p Hp]. rewrite Hp at 2. rewrite blen_app. lia.
Qed.

(** ** slicing at prefix sums always succeeds *)
Lemma blen_firstn_cons k c s : blen (firstn (S k) (c :: s)) = width c + blen (firstn k s).
Proof. reflexivity. Qed.

Lemma slice_to_prefix s k : slice_to s (blen (firstn k s)) = Some (firstn k s).
Proof.
  revert k. induction s as [|c s IH]; intros k.
  - destruct k; reflexivity.
  - destruct k as [|k]; [reflexivity|].
    rewrite blen_firstn_cons. cbn [slice_to firstn].
    pose proof (width_pos c).
    destruct (width c + blen (firstn k s) =? 0) eqn:E0; [lia|].
    destruct (width c <=? width c + blen (firstn k s)) eqn:E1; [|lia].
    replace (width c + blen (firstn k s) - width c) with (blen (firstn k s)) by lia.
    now rewrite IH.
Qed.

Lemma slice_from_prefix s k : slice_from s (blen (firstn k s)) = Some (skipn k s).
Proof.
  revert k. induction s as [|c s IH]; intros k.
  - destruct k; reflexivity.
  - destruct k as [|k]; [reflexivity|].
    rewrite blen_firstn_cons. cbn [slice_from skipn].
    pose proof (width_pos c).
    destruct (width c + blen (firstn k s) =? 0) eqn:E0; [lia|].
    destruct (width c <=? width c + blen (firstn k s)) eqn:E1; [|lia].
    replace (width c + blen (firstn k s) - width c) with (blen (firstn k s)) by lia.
    apply IH.
Qed.

Lemma blen_firstn_mono s a b : (a <= b)%nat -> blen (firstn a s) <= blen (firstn b s).
Proof.
  revert a b. induction s as [|c s IH]; intros a b H.
  - destruct a, b; cbn; lia.
  - destruct a as [|a]; [cbn [firstn blen]; lia|].
    destruct b as [|b]; [lia|]. rewrite !blen_firstn_cons.
    specialize (IH a b ltac:(lia)). lia.
Qed.

Lemma firstn_firstn_le {A} (l : list A) a b : (a <= b)%nat -> firstn a (firstn b l) = firstn a l.
Proof. intros H. rewrite firstn_firstn. now rewrite Nat.min_l. Qed.

Lemma slice_prefix_sums s a b :
  (a <= b)%nat -> exists w, slice s (blen (firstn a s)) (blen (firstn b s)) = Some w.
Proof.
  intros H. unfold slice.
  pose proof (blen_firstn_mono s a b H).
  destruct (blen (firstn a s) <=? blen (firstn b s)) eqn:E; [|lia].
  rewrite slice_to_prefix.
  rewrite <- (firstn_firstn_le s a b H).
  rewrite slice_from_prefix. eauto.
Qed.

(** ** char_indices yields exactly the prefix sums *)
Lemma char_indices_at_nth s : forall off k x,
  nth_error (char_indices_at s off) k = Some x ->
  fst x = off + blen (firstn k s) /\ nth_error s k = Some (snd x).
Proof.
  induction s as [|c s IH]; intros off k x H.
  - destruct k; discriminate.
  - destruct k as [|k]; cbn in H.
    + injection H as <-. cbn. split; [lia|reflexivity].
    + apply IH in H as [H1 H2]. rewrite blen_firstn_cons. cbn [nth_error]. split; [lia|exact H2].
Qed.
Lemma char_indices_length s off : length (char_indices_at s off) = length s.
Proof. revert off. induction s as [|c s IH]; intros off; cbn; [reflexivity|]. now rewrite IH. Qed.

(** ** format_docstring *)
Lemma skip_front_ok ls : forall fuel start,
  start <= len ls -> (N.to_nat (len ls - start) < fuel)%nat ->
  exists r, skip_front fuel ls start = Ok r /\ start <= r /\ r <= len ls.
Proof.
  induction fuel as [|f IH]; intros start Hle Hf; [lia|].
  cbn [skip_front]. destruct (start <? len ls) eqn:E.
  - destruct (idx_lt ls start ltac:(lia)) as [l Hl]. rewrite Hl. cbn [rbind].
    destruct (blank l).
    + destruct (IH (start + 1) ltac:(lia) ltac:(lia)) as [r [Hr ?]]. exists r. split; [exact Hr|lia].
    + exists start. split; [reflexivity|lia].
  - exists start. split; [reflexivity|lia].
Qed.

Lemma skip_back_ok ls start : forall fuel e,
  e <= len ls -> (N.to_nat e < fuel)%nat ->
  exists r, skip_back fuel ls start e = Ok r /\ r <= len ls.
Proof.
  induction fuel as [|f IH]; intros e Hle Hf; [lia|].
  cbn [skip_back]. destruct (start <? e) eqn:E.
  - unfold usub. destruct (1 <=? e) eqn:E1; [|lia]. cbn [rbind].
    destruct (idx_lt ls (e - 1) ltac:(lia)) as [l Hl]. rewrite Hl. cbn [rbind].
    destruct (blank l).
    + apply IH; lia.
    + exists e. split; [reflexivity|lia].
  - exists e. split; [reflexivity|lia].
Qed.

Lemma min_indent_loop_ok ls : forall first m, exists r, min_indent_loop first ls m = Ok r.
Proof.
  induction ls as [|l ls IH]; intros first m; cbn [min_indent_loop]; [eauto|].
  destruct (first && negb (blank l)); [apply IH|].
  destruct (negb (blank l)); [|apply IH].
  unfold usub. pose proof (blen_trim_start_le l).
  destruct (blen (trim_start l) <=? blen l) eqn:E; [|lia]. cbn [rbind]. apply IH.
Qed.

Lemma rmap_dedent_ok m ls : exists r, rmap (dedent_line m) ls = Ok r.
Proof.
  induction ls as [|l ls [r IH]]; cbn [rmap]; [eauto|].
  unfold dedent_line at 1. destruct (blank l); cbn [rbind]; rewrite IH; cbn [rbind]; eauto.
Qed.

Theorem format_docstring_total : forall s, exists r, format_docstring s = Ok r.
Proof.
  intros s. unfold format_docstring, format_docstring_with.
  destruct (lines s) as [|l0 ls0] eqn:El; [eauto|]. set (ls := l0 :: ls0).
  destruct (skip_front_ok ls (S (length ls)) 0 ltac:(lia) ltac:(unfold len; lia)) as [st [Hst [_ Hst2]]].
  rewrite Hst. cbn [rbind].
  destruct (skip_back_ok ls st (S (length ls)) (len ls) ltac:(lia) ltac:(unfold len; lia)) as [e [He He2]].
  rewrite He. cbn [rbind].
  destruct (e <=? st) eqn:Ees; [eauto|].
  unfold lslice. destruct ((st <=? e) && (e <=? len ls)) eqn:Eb; [|lia]. cbn [rbind].
  set (ls' := firstn _ _).
  destruct (min_indent_loop_ok ls' true u64_max) as [m Hm]. rewrite Hm. cbn [rbind].
  destruct ls' as [|x rest]; [eauto|].
  destruct (rmap_dedent_ok (if m =? u64_max then 0 else m) rest) as [ds Hds]. rewrite Hds. cbn [rbind]. eauto.
Qed.

(** ** extract_word_at_position *)
Section Word.
  Variable wordc : cp -> bool.

  Lemma word_start_ok cis : forall fuel i,
    i <= len cis -> (N.to_nat i < fuel)%nat ->
    exists r, word_start wordc fuel cis i = Ok r /\ r <= i.
  Proof.
    induction fuel as [|f IH]; intros i Hle Hf; [lia|].
    cbn [word_start]. destruct (0 <? i) eqn:E.
    - unfold usub. destruct (1 <=? i) eqn:E1; [|lia]. cbn [rbind].
      destruct (idx_lt cis (i - 1) ltac:(lia)) as [pc Hpc]. rewrite Hpc. cbn [rbind].
      destruct (wordc (snd pc)).
      + destruct (IH (i - 1) ltac:(lia) ltac:(lia)) as [r [Hr ?]]. exists r. split; [exact Hr|lia].
      + exists i. split; [reflexivity|lia].
    - exists i. split; [reflexivity|lia].
  Qed.

  Lemma word_end_ok cis : forall fuel i,
    i <= len cis -> (N.to_nat (len cis - i) < fuel)%nat ->
    exists r, word_end wordc fuel cis i = Ok r /\ i <= r /\ r <= len cis.
  Proof.
    induction fuel as [|f IH]; intros i Hle Hf; [lia|].
    cbn [word_end]. destruct (i <? len cis) eqn:E.
    - destruct (idx_lt cis i ltac:(lia)) as [pc Hpc]. rewrite Hpc. cbn [rbind].
      destruct (wordc (snd pc)).
      + destruct (IH (i + 1) ltac:(lia) ltac:(lia)) as [r [Hr ?]]. exists r. split; [exact Hr|lia].
      + exists i. split; [reflexivity|lia].
    - exists i. split; [reflexivity|lia].
  Qed.

  Lemma idx_char_indices line i x :
    idx (char_indices line) i = Ok x -> fst x = blen (firstn (N.to_nat i) line) /\ i < len line.
  Proof.
    unfold idx, nth_opt, char_indices. destruct (nth_error _ _) eqn:E; [|discriminate].
    intros H. injection H as <-.
    pose proof (char_indices_at_nth line 0 _ _ E) as [H1 H2].
    split; [lia|].
    assert (nth_error line (N.to_nat i) <> None) as Hn by congruence.
    apply nth_error_Some in Hn. unfold len. lia.
  Qed.

  Theorem extract_word_total : forall line character,
    exists r, extract_word_at_position wordc line character = Ok r.
  Proof.
    intros line ch. unfold extract_word_at_position.
    set (cis := char_indices line).
    assert (Hlen : len cis = len line).
    { unfold len, cis, char_indices. now rewrite char_indices_length. }
    destruct (len cis <=? ch) eqn:E; [eauto|].
    destruct (idx_lt cis ch ltac:(lia)) as [pc Hpc]. rewrite Hpc. cbn [rbind].
    destruct (negb (wordc (snd pc))); [eauto|].
    destruct (word_start_ok cis (S (length cis)) ch ltac:(lia) ltac:(unfold len in *; lia)) as [si [Hsi Hsi2]].
    rewrite Hsi. cbn [rbind].
    destruct (word_end_ok cis (S (length cis)) (ch + 1) ltac:(lia) ltac:(unfold len in *; lia)) as [ei [Hei [Hei2 Hei3]]].
    rewrite Hei. cbn [rbind].
    destruct (idx_lt cis si ltac:(lia)) as [sp Hsp]. rewrite Hsp. cbn [rbind].
    apply idx_char_indices in Hsp as [Hsp _].
    assert (exists eb, (if ei <? len cis then idx cis ei >>= fun ep => Ok (fst ep) else Ok (blen line)) = Ok eb
                       /\ eb = blen (firstn (N.to_nat ei) line)) as [eb [Heb Heb2]].
    { destruct (ei <? len cis) eqn:E2.
      - destruct (idx_lt cis ei ltac:(lia)) as [ep Hep]. rewrite Hep. cbn [rbind].
        apply idx_char_indices in Hep as [Hep _]. eauto.
      - exists (blen line). split; [reflexivity|].
        rewrite firstn_all2; [reflexivity|]. unfold len in *. lia. }
    rewrite Heb. cbn [rbind]. rewrite Hsp, Heb2.
    destruct (slice_prefix_sums line (N.to_nat si) (N.to_nat ei) ltac:(lia)) as [w Hw].
    rewrite Hw. cbn [of_opt rbind]. eauto.
  Qed.
End Word.

(** ** find: the match position is a character boundary, and so is its end *)
Lemma tprefix_firstn p : forall s, tprefix p s = true -> firstn (length p) s = p.
Proof.
  induction p as [|a p IH]; intros s H; [reflexivity|].
  destruct s as [|b s]; [discriminate|]. cbn in H.
  apply andb_prop in H as [H1 H2]. apply N.eqb_eq in H1. subst. cbn [length firstn]. now rewrite IH.
Qed.

Lemma find_at_boundary p : forall s off r,
  find_at p s off = Some r ->
  exists k, r = off + blen (firstn k s) /\ r + blen p = off + blen (firstn (k + length p) s).
Proof.
  induction s as [|c s IH]; intros off r H.
  - cbn in H. destruct (tprefix p []) eqn:E; [|discriminate]. injection H as <-.
    exists 0%nat. cbn [firstn blen]. split; [lia|].
    apply tprefix_firstn in E. destruct p; [|cbn in E; discriminate E]. cbn. lia.
  - cbn [find_at] in H. destruct (tprefix p (c :: s)) eqn:E.
    + injection H as <-. exists 0%nat. cbn [firstn blen Nat.add]. split; [lia|].
      apply tprefix_firstn in E. rewrite E. lia.
    + apply IH in H as [k [H1 H2]]. exists (S k). cbn [Nat.add]. rewrite !blen_firstn_cons. lia.
Qed.

Theorem find_function_name_position_total : forall content line name,
  exists r, find_function_name_position content line name = Ok r.
Proof.
  intros content line name. unfold find_function_name_position, find_function_name_position_with.
  destruct (nth_opt (lines content) (line - 1)) as [lc|]; [|eauto].
  assert (K : forall kw def_pos, blen kw = 4 -> find kw lc = Some def_pos ->
              exists r, (match (of_opt (slice_from lc (def_pos + 4)) >>= fun after_def =>
                                Ok (match find name after_def with
                                    | Some name_pos => Some (def_pos + 4 + name_pos, def_pos + 4 + name_pos + blen name)
                                    | None => None
                                    end)) with
                         | Ok (Some r) => Ok r
                         | Ok None => match find name lc with
                                      | Some pos => Ok (pos, pos + blen name)
                                      | None => Ok (0, blen name)
                                      end
                         | Panic => Panic
                         | OutOfFuel => OutOfFuel
                         end) = Ok r).
  { intros kw def_pos Hk Ef. unfold find in Ef. apply find_at_boundary in Ef as [k [_ H2]].
    rewrite Hk in H2. rewrite H2, N.add_0_l, slice_from_prefix. cbn [of_opt rbind].
    destruct (find name _); [eauto|]. destruct (find name lc); eauto. }
  unfold find_def_kw. destruct (find def_sp lc) as [def_pos|] eqn:Ef.
  - exact (K def_sp def_pos eq_refl Ef).
  - destruct (find def_tab lc) as [def_pos|] eqn:Et.
    + exact (K def_tab def_pos eq_refl Et).
    + destruct (find name lc); eauto.
Qed.

(** ** parameter_has_annotation: total by construction since fix 39fd031 *)
Theorem parameter_has_annotation_total : forall ls line end_char,
  exists r, parameter_has_annotation ls line end_char = Ok r.
Proof.
  intros. unfold parameter_has_annotation.
  destruct (nth_opt ls (line - 1)); [|eauto].
  destruct (slice_from t end_char) as [[|c r]|]; eauto.
Qed.

(** ** dist-info names *)
Lemma skipn_S_of_cons {A} (l : list A) : forall k x r, skipn k l = x :: r -> skipn (S k) l = r.
Proof.
  induction l as [|y l IH]; intros k x r H.
  - destruct k; discriminate.
  - destruct k as [|k]; cbn in H.
    + injection H as _ <-. reflexivity.
    + cbn [skipn]. eapply IH. exact H.
Qed.
Lemma find_version_sep_ok nv : forall k cis ci,
  cis = char_indices_at (skipn k nv) (blen (firstn k nv)) ->
  exists r, find_version_sep nv cis ci = Ok r /\
            match r with Some (bi, _) => exists j, bi = blen (firstn j nv) | None => True end.
Proof.
  intros k cis. revert k. induction cis as [|[i c] cis IH]; intros k ci H; cbn [find_version_sep].
  - exists None. split; reflexivity.
  - destruct (skipn k nv) as [|c' rest] eqn:Es; [discriminate|]. cbn [char_indices_at] in H.
    injection H as Hi Hc Hcis. subst c'.
    assert (Hk : skipn (S k) nv = rest).
    { eapply skipn_S_of_cons. exact Es. }
    assert (Hb : blen (firstn (S k) nv) = i + width c).
    { rewrite <- (firstn_skipn k nv) at 1. rewrite Es.
      rewrite firstn_app. rewrite firstn_firstn, Nat.min_r by lia.
      rewrite blen_app. rewrite Hi. f_equal.
      destruct (Nat.le_gt_cases (length nv) k) as [Hlen|Hlen].
      - rewrite skipn_all2 in Es by exact Hlen. discriminate.
      - rewrite firstn_length_le by lia. replace (S k - k)%nat with 1%nat by lia. cbn. lia. }
    assert (Hrec : cis = char_indices_at (skipn (S k) nv) (blen (firstn (S k) nv))).
    { rewrite Hk, Hb, Hi. exact Hcis. }
    destruct (c =? hyphen) eqn:Eh.
    + apply N.eqb_eq in Eh. subst c. change (width hyphen) with 1 in Hb.
      rewrite <- Hb, slice_from_prefix. cbn [of_opt rbind].
      destruct (starts_with_digit _).
      * exists (Some (i, ci)). split; [reflexivity|]. exists k. now rewrite Hi.
      * apply (IH (S k)). exact Hrec.
    + apply (IH (S k)). exact Hrec.
Qed.

Theorem dist_info_name_total : forall d, exists r, dist_info_name d = Ok r.
Proof.
  intros d. unfold dist_info_name, dist_info_name_with.
  destruct (match strip_suffix dist_info_sfx d with Some nv => Some nv | None => strip_suffix egg_info_sfx d end) as [nv|]; [|eauto].
  destruct (find_version_sep_ok nv 0 (char_indices nv) 0 eq_refl) as [r [Hr Hb]].
  rewrite Hr. cbn [rbind]. destruct r as [[bi ci]|]; [|eauto].
  destruct Hb as [j ->]. rewrite slice_to_prefix. cbn [of_opt rbind]. eauto.
Qed.

(** ** line conversions and the line index *)
Theorem lsp_line_to_internal_total : forall line, line <= u32_max -> lsp_line_to_internal line = Ok (line + 1).
Proof.
  intros line H. unfold lsp_line_to_internal, uadd64, u64_max. unfold u32_max in H.
  destruct (line + 1 <=? 18446744073709551615) eqn:E; [reflexivity|lia].
Qed.

Lemma line_of_offset_bounds s off :
  1 <= line_of_offset (build_line_index s) off /\
  line_of_offset (build_line_index s) off <= len (build_line_index s).
Proof.
  unfold line_of_offset, build_line_index. cbn [filter].
  replace (0 <=? off) with true by lia. rewrite !len_cons.
  split; [lia|].
  assert (forall l, len (filter (fun st => st <=? off) l) <= len l) as Hf.
  { induction l as [|x l IH]; cbn [filter]; [lia|]. destruct (x <=? off); rewrite ?len_cons; lia. }
  specialize (Hf (line_index_at s 0)). lia.
Qed.

(** [line_index[line - 1]] in get_char_position_from_offset never fails *)
Theorem char_position_index_total : forall s off,
  exists st, (usub (line_of_offset (build_line_index s) off) 1 >>= idx (build_line_index s)) = Ok st.
Proof.
  intros s off. destruct (line_of_offset_bounds s off) as [H1 H2].
  unfold usub. destruct (1 <=? _) eqn:E; [|lia]. cbn [rbind]. apply idx_lt. lia.
Qed.

(** ** what the fixes repaired: closed witnesses on which the old code panics *)
Lemma format_docstring_old_refuted :
  format_docstring_old [120; 10; 32; 32; 97; 10; 12288; 98] = Panic
  /\ format_docstring [120; 10; 32; 32; 97; 10; 12288; 98] = Ok [120; 10; 97; 10; 98].
Proof. split; vm_compute; reflexivity. Qed.

Lemma parameter_has_annotation_old_refuted :
  parameter_has_annotation_old [[100; 233; 102]] 1 2 = Panic
  /\ parameter_has_annotation [[100; 233; 102]] 1 2 = Ok false.
Proof. split; vm_compute; reflexivity. Qed.

Lemma dist_info_name_old_refuted :
  dist_info_name_old ([233; 45; 49] ++ dist_info_sfx) = Panic
  /\ dist_info_name ([233; 45; 49] ++ dist_info_sfx) = Ok (Some [233]).
Proof. split; vm_compute; reflexivity. Qed.

Lemma lsp_line_to_internal_old_refuted :
  lsp_line_to_internal_old u32_max = Panic /\ lsp_line_to_internal u32_max = Ok 4294967296.
Proof. split; vm_compute; reflexivity. Qed.
