(** * Offsets to (line, column): exact on every text (C15 / C03 groundwork).
    Every position the analyzer records goes through [build_line_index] and
    [get_line_from_offset] / [get_char_position_from_offset]: a byte offset of the parser is
    turned into a line number (number of line starts <= offset) and a column (offset minus
    that line's start).  For EVERY text, split anywhere as [pre ++ cur ++ rest] with [pre]
    empty or ending in a line feed and [cur] free of line feeds, the offset of the end of
    [cur] is reported on line 1 + (line feeds in [pre]), at column [blen cur]: the line is
    the one the offset lies on, the column counts the bytes since that line began - for any
    mixture of character widths, for CR LF line ends (the CR stays on its line), with or
    without a final line feed. *)
From Coq Require Import Arith Lia.
From PLS Require Import Model.TextFns Proofs.TextFns.
Local Open Scope N_scope.

Definition lf : cp := 10.
Fixpoint count_lf (s : text) : N :=
  match s with [] => 0 | c :: s' => (if c =? lf then 1 else 0) + count_lf s' end.

Definition count_le (off : N) (l : list N) : N := len (filter (fun st => st <=? off) l).

Lemma count_le_app off a b : count_le off (a ++ b) = count_le off a + count_le off b.
Proof.
  unfold count_le. rewrite filter_app. unfold len. rewrite app_length. lia.
Qed.

Lemma line_index_at_app a b off :
  line_index_at (a ++ b) off = line_index_at a off ++ line_index_at b (off + blen a).
Proof.
  revert off. induction a as [|c a IH]; intros off; cbn [app line_index_at blen].
  - now rewrite N.add_0_r.
  - assert (W : width 10 = 1) by reflexivity.
    destruct (c =? 10) eqn:E.
    + apply N.eqb_eq in E. subst c. rewrite W. cbn [app]. f_equal. rewrite IH. f_equal. f_equal. lia.
    + rewrite IH. f_equal. f_equal. lia.
Qed.

(** every start recorded for [s] read from [off] lies in (off, off + blen s] *)
Lemma line_index_at_range s : forall off x, In x (line_index_at s off) -> off < x /\ x <= off + blen s.
Proof.
  induction s as [|c s IH]; intros off x H; cbn [line_index_at blen] in *; [destruct H|].
  pose proof (width_pos c) as Wp.
  destruct (c =? 10) eqn:E.
  - apply N.eqb_eq in E. subst c. change (width 10) with 1.
    destruct H as [<-|H]; [lia|]. apply IH in H. lia.
  - apply IH in H. lia.
Qed.

Lemma count_le_all off l : (forall x, In x l -> x <= off) -> count_le off l = len l.
Proof.
  unfold count_le. induction l as [|x l IH]; intros H; cbn [filter]; [reflexivity|].
  replace (x <=? off) with true by (symmetry; apply N.leb_le; apply H; now left).
  rewrite !len_cons. rewrite IH; [reflexivity|]. intros y Hy. apply H. now right.
Qed.
Lemma count_le_none off l : (forall x, In x l -> off < x) -> count_le off l = 0.
Proof.
  unfold count_le. induction l as [|x l IH]; intros H; cbn [filter]; [reflexivity|].
  replace (x <=? off) with false by (symmetry; apply N.leb_gt; apply H; now left).
  apply IH. intros y Hy. apply H. now right.
Qed.

Lemma line_index_at_len s : forall off, len (line_index_at s off) = count_lf s.
Proof.
  induction s as [|c s IH]; intros off; cbn [line_index_at count_lf]; [reflexivity|].
  unfold lf. destruct (c =? 10); [rewrite len_cons, IH; lia|rewrite IH; lia].
Qed.

Lemma no_lf_no_start s : count_lf s = 0 -> forall off, line_index_at s off = [].
Proof.
  induction s as [|c s IH]; intros H off; cbn [line_index_at count_lf] in *; [reflexivity|].
  unfold lf in H. destruct (c =? 10); [lia|]. apply IH. lia.
Qed.

Theorem line_of_offset_exact pre cur rest :
  count_lf cur = 0 ->
  line_of_offset (build_line_index (pre ++ cur ++ rest)) (blen pre + blen cur) = 1 + count_lf pre.
Proof.
  intros Hc. unfold line_of_offset, build_line_index. cbn [filter].
  replace (0 <=? blen pre + blen cur) with true by (symmetry; apply N.leb_le; lia).
  rewrite len_cons. fold (count_le (blen pre + blen cur) (line_index_at (pre ++ cur ++ rest) 0)).
  rewrite !line_index_at_app, !count_le_app. rewrite (no_lf_no_start cur Hc).
  rewrite (count_le_all _ (line_index_at pre 0)).
  - rewrite (count_le_none _ (line_index_at rest _)).
    + rewrite line_index_at_len. unfold count_le. cbn [filter]. unfold len. cbn [length]. lia.
    + intros x Hx. apply line_index_at_range in Hx. lia.
  - intros x Hx. apply line_index_at_range in Hx. lia.
Qed.

(** the start of that line *)
Definition ends_with_lf (s : text) : Prop := s = [] \/ exists p, s = p ++ [lf].

Lemma last_start pre : ends_with_lf pre ->
  nth_opt (0 :: line_index_at pre 0) (count_lf pre) = Some (blen pre).
Proof.
  intros [->|[p ->]]; [reflexivity|].
  assert (Cl : count_lf (p ++ [lf]) = count_lf p + 1).
  { induction p as [|c p IH]; cbn [app count_lf]; [reflexivity|]. rewrite IH. lia. }
  rewrite Cl, line_index_at_app. cbn [line_index_at]. unfold lf. cbn [N.eqb Pos.eqb].
  rewrite blen_app. cbn [blen]. change (width 10) with 1. rewrite N.add_0_r, N.add_0_l.
  unfold nth_opt. replace (N.to_nat (count_lf p + 1)) with (S (N.to_nat (count_lf p))) by lia.
  cbn [nth_error].
  pose proof (line_index_at_len p 0) as L. unfold len in L.
  rewrite nth_error_app2 by lia. replace (N.to_nat (count_lf p) - length (line_index_at p 0))%nat with 0%nat by lia.
  reflexivity.
Qed.

Theorem offset_to_position_exact pre cur rest :
  ends_with_lf pre -> count_lf cur = 0 ->
  let index := build_line_index (pre ++ cur ++ rest) in
  let line := line_of_offset index (blen pre + blen cur) in
  line = 1 + count_lf pre /\
  (usub line 1 >>= idx index) = Ok (blen pre) /\
  (blen pre + blen cur) - blen pre = blen cur.
Proof.
  intros Hp Hc index line.
  assert (Hl : line = 1 + count_lf pre) by (apply line_of_offset_exact; exact Hc).
  split; [exact Hl|]. split; [|lia].
  rewrite Hl. unfold usub. replace (1 <=? 1 + count_lf pre) with true by (symmetry; apply N.leb_le; lia).
  cbn [rbind]. replace (1 + count_lf pre - 1) with (count_lf pre) by lia.
  unfold idx, index, build_line_index.
  rewrite !line_index_at_app.
  assert (E : nth_opt (0 :: line_index_at pre 0 ++ line_index_at cur (0 + blen pre) ++ line_index_at rest (0 + blen pre + blen cur)) (count_lf pre)
              = nth_opt (0 :: line_index_at pre 0) (count_lf pre)).
  { unfold nth_opt. pose proof (line_index_at_len pre 0) as L. unfold len in L.
    change (0 :: line_index_at pre 0 ++ ?t) with ((0 :: line_index_at pre 0) ++ t).
    apply nth_error_app1. cbn [length]. lia. }
  rewrite E, (last_start pre Hp). reflexivity.
Qed.
