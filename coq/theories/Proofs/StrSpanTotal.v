(** * [string_usage_span]'s search loop never panics and always terminates — for every
    literal, every name and every Unicode content — because the cursor only ever rests on
    character boundaries; advancing it by one byte instead (seeded change S44) panics.
    The partial version agrees with the total model [find_token] used by C03 / C15. *)
From Coq Require Import Arith Lia.
From PLS Require Import Model.Ranges Model.Analyzer Proofs.TextFns Proofs.Positions.
Open Scope N_scope.

Lemma slice_from_gt_none : forall s i, blen s < i -> slice_from s i = None.
Proof.
  induction s as [|c s IH]; intros i H; cbn [slice_from blen] in *.
  - destruct (i =? 0) eqn:E; [lia|reflexivity].
  - destruct (i =? 0) eqn:E; [lia|]. destruct (width c <=? i) eqn:E2; [|reflexivity]. apply IH. lia.
Qed.

Section Total.
  Variable identc : cp -> bool.

  (** one iteration, from a boundary: the three slices succeed *)
  Lemma token_loop_total step_ok : forall fuel name src from rest,
    name <> [] ->
    slice_from src from = Some rest -> (length rest < fuel)%nat ->
    (* the step function keeps the cursor on the boundary behind the rejected occurrence *)
    (forall at_ n, step_ok at_ n = at_ + n) ->
    exists r, token_loop identc step_ok fuel name src from = Ok r.
  Proof.
    induction fuel as [|fuel IH]; intros name src from rest Hn Hs Hf Hstep; [inversion Hf|].
    cbn [token_loop].
    pose proof Hs as Hs'. apply slice_from_sound in Hs' as [p0 [-> Hp0]].
    assert (Hle : (blen (p0 ++ rest) <? from) = false) by (rewrite blen_app; lia).
    rewrite Hle, Hs. cbn [of_opt rbind].
    destruct (find name rest) as [k|] eqn:Ef; [|eexists; reflexivity].
    apply find_sound in Ef as [p1 [post [-> ->]]].
    assert (Hpre : slice_to (p0 ++ p1 ++ name ++ post) (from + blen p1) = Some (p0 ++ p1)).
    { rewrite app_assoc. replace (from + blen p1) with (blen (p0 ++ p1)) by (rewrite blen_app; lia). apply slice_to_app. }
    assert (Hpost : slice_from (p0 ++ p1 ++ name ++ post) (from + blen p1 + blen name) = Some post).
    { replace (p0 ++ p1 ++ name ++ post) with ((p0 ++ p1 ++ name) ++ post) by (now rewrite <- !app_assoc).
      replace (from + blen p1 + blen name) with (blen (p0 ++ p1 ++ name)) by (rewrite !blen_app; lia). apply slice_from_app. }
    rewrite Hpre, Hpost. cbn [of_opt rbind].
    destruct (_ && _); [eexists; reflexivity|].
    rewrite Hstep. apply (IH name _ _ post Hn Hpost); [|exact Hstep].
    rewrite !app_length in Hf. destruct name; [contradiction|]. cbn [length] in Hf. lia.
  Qed.

  Theorem string_usage_token_total name src from rest :
    name <> [] -> slice_from src from = Some rest ->
    exists r, string_usage_token identc (S (length src)) name src from = Ok r.
  Proof.
    intros Hn Hs. apply (token_loop_total _ _ name src from rest Hn Hs); [|reflexivity].
    apply slice_from_sound in Hs as [p0 [-> _]]. rewrite app_length. lia.
  Qed.

  (** the positions the code starts from are boundaries: offset 0, and the byte behind the
      first quote character (an ASCII character) *)
  Lemma slice_from_zero src : slice_from src 0 = Some src.
  Proof. destruct src; reflexivity. Qed.
  Lemma slice_behind_ascii pre q post : q < 128 -> slice_from (pre ++ q :: post) (blen pre + 1) = Some post.
  Proof.
    intros Hq. replace (pre ++ q :: post) with ((pre ++ [q]) ++ post) by (now rewrite <- app_assoc).
    replace (blen pre + 1) with (blen (pre ++ [q])); [apply slice_from_app|].
    rewrite blen_app. cbn [blen]. unfold width. destruct (q <? 128) eqn:E; lia.
  Qed.
End Total.

(** the partial loop computes what the total model computes *)
Theorem token_loop_is_find_token : forall fuel name src from r,
  string_usage_token ident_char fuel name src from = Ok r -> find_token fuel name src from = r.
Proof.
  unfold string_usage_token.
  induction fuel as [|fuel IH]; intros name src from r H; [discriminate|].
  cbn [token_loop] in H. cbn [find_token].
  destruct (blen src <? from) eqn:El.
  - injection H as <-. rewrite slice_from_gt_none by lia. reflexivity.
  - destruct (slice_from src from) as [rest|]; [|discriminate]. cbn [of_opt rbind] in H.
    destruct (find name rest) as [k|]; [|now injection H as <-].
    destruct (slice_to src (from + k)) as [pre|]; [|discriminate]. cbn [of_opt rbind] in H.
    destruct (slice_from src (from + k + blen name)) as [post|]; [|discriminate]. cbn [of_opt rbind] in H.
    change (last_of pre) with (last_cp pre) in H.
    destruct post as [|c post]; cbv beta iota in H |- *;
      (destruct (_ && _); [now injection H as <-|]; now apply IH).
Qed.

(** S44: with the cursor advanced by one byte the loop panics on a name whose first
    character is multi-byte and first occurs as a prefix of a longer identifier:
    the literal "été_db,été" and the name été *)
Definition lit_s44 : text := [34; 233; 116; 233; 95; 100; 98; 44; 233; 116; 233; 34].
Definition name_s44 : text := [233; 116; 233].
Lemma string_usage_token_plus_one_refuted :
  string_usage_token_plus_one ident_char (S (length lit_s44)) name_s44 lit_s44 1 = Panic /\
  string_usage_token ident_char (S (length lit_s44)) name_s44 lit_s44 1 = Ok (Some 10).
Proof. split; vm_compute; reflexivity. Qed.
