(** * Proofs for C20: the CLI's numbers are the server's reference lists. *)
From Coq Require Import Lia.
From PLS Require Import Check.C20 Proofs.Basics Proofs.Invariants.

(** ** sorting keeps exactly the elements *)
Lemma insert_sorted_in {A} (leb : A -> A -> bool) x y l : In y (insert_sorted leb x l) <-> y = x \/ In y l.
Proof.
  induction l as [|z l IH]; cbn; [firstorder|].
  destruct (leb x z); cbn; [firstorder|]. rewrite IH. firstorder.
Qed.
Lemma isort_in {A} (leb : A -> A -> bool) y l : In y (isort leb l) <-> In y l.
Proof.
  unfold isort. induction l as [|x l IH]; cbn; [reflexivity|].
  rewrite insert_sorted_in, IH. firstorder.
Qed.
Lemma insert_sorted_length {A} (leb : A -> A -> bool) x l : length (insert_sorted leb x l) = S (length l).
Proof. induction l as [|z l IH]; cbn; [reflexivity|]. destruct (leb x z); cbn; [reflexivity|]. now rewrite IH. Qed.
Lemma isort_length {A} (leb : A -> A -> bool) l : length (isort leb l) = length l.
Proof. unfold isort. induction l as [|x l IH]; cbn; [reflexivity|]. now rewrite insert_sorted_length, IH. Qed.

(** ** the resolver only ever answers with a known definition of the requested name *)
Section Sound.
  Variable dk : disk.
  Variable roots : list path.
  Variable s : index.

  Lemma last_binding_in flt dn m d : last_binding flt dn m = Some d -> In d dn.
  Proof.
    unfold last_binding. destruct (max_by_key _ _) as [x|] eqn:E; [|discriminate].
    destruct (flt x); [|discriminate]. intros [= <-].
    apply max_by_key_in in E. apply filter_In in E. tauto.
  Qed.

  Lemma closest_with_in flt F n d : closest_with dk roots s flt F n = Some d -> In d (defs_named s n).
  Proof.
    unfold closest_with. destruct (defs_named s n) as [|d0 l0] eqn:Edn; [discriminate|]. rewrite <- Edn.
    destruct (last_binding flt (defs_named s n) F) as [x|] eqn:E1.
    - intros [= <-]. eapply last_binding_in; eauto.
    - destruct F as [|f dir]; [discriminate|].
      destruct (first_some _ _) as [x|] eqn:E2.
      + intros [= <-]. apply first_some_some in E2 as [dir' [_ Hs]].
        unfold conftest_step in Hs. destruct (last_binding flt (defs_named s n) (conftest_py :: dir')) eqn:E3.
        * injection Hs as <-. eapply last_binding_in; eauto.
        * destruct (_ && _); [|discriminate]. apply find_some_in in Hs. tauto.
      + destruct (find (fun d1 => d_plugin d1 && negb (d_third d1) && flt d1) _) as [x|] eqn:E3.
        * intros [= <-]. apply find_some_in in E3. tauto.
        * intros H. apply find_some_in in H. tauto.
  Qed.

  Lemma resolve_usage_in F line n d :
    resolve_usage dk roots s F line n = Some d -> In d (defs s) /\ d_name d = n.
  Proof.
    unfold resolve_usage. intros H.
    assert (Hin : In d (defs_named s n)).
    { destruct (def_at_line s F line) as [cd|]; [destruct (String.eqb (d_name cd) n)|];
        eapply closest_with_in; exact H. }
    unfold defs_named in Hin. apply filter_In in Hin as [Hd Hn]. apply String.eqb_eq in Hn. tauto.
  Qed.
End Sound.

(** ** the theorem: one CLI count = one reference list *)
Section Counts.
  Variable s : index.
  Hypothesis Hmirror : usage_by s = usages s.

  Lemma cli_resolve_is_resolve_usage u :
    cli_resolve [] [] s u = resolve_usage [] [] s (u_file u) (u_line u) (u_name u).
  Proof. reflexivity. Qed.

  Lemma filter_filter_and {A} (p q : A -> bool) l : filter p (filter q l) = filter (fun x => q x && p x) l.
  Proof. induction l as [|x l IH]; cbn; [reflexivity|]. destruct (q x); cbn; [destruct (p x)|]; now rewrite IH. Qed.

  Theorem counts_are_refs d :
    In d (defs s) ->
    (forall d', In d' (defs s) -> key_of d' = key_of d -> d' = d) ->
    cli_count [] [] s (key_of d) = len (refs [] [] s d).
  Proof.
    intros Hd Huniq. unfold cli_count, cli_count_with, refs, usage_by_name. rewrite Hmirror. unfold len. f_equal. f_equal.
    rewrite filter_filter_and. apply filter_ext_in. intros u _.
    unfold counted_with. fold (cli_resolve [] [] s u). rewrite cli_resolve_is_resolve_usage. cbn [key_of fst snd].
    destruct (resolve_usage [] [] s (u_file u) (u_line u) (u_name u)) as [d'|] eqn:E;
      [|now rewrite andb_false_r].
    apply resolve_usage_in in E as [Hin Hn].
    destruct (String.eqb (u_name u) (d_name d)) eqn:En; [|now rewrite andb_false_r].
    rewrite andb_true_r. cbn [andb]. apply String.eqb_eq in En.
    destruct (path_eqb (d_file d') (d_file d)) eqn:Ef.
    - apply path_eqb_eq in Ef. symmetry. apply fdef_eqb_iff. apply Huniq; [exact Hin|].
      unfold key_of. now rewrite Ef, Hn, En.
    - symmetry. destruct (fdef_eqb d' d) eqn:Eq; [|reflexivity].
      apply fdef_eqb_eq in Eq. subst d'. now rewrite path_eqb_refl in Ef.
  Qed.

  (** an entry is reported unused exactly when some project, non-autouse definition is
      printed under it and its count is zero *)
  Theorem unused_iff k :
    In k (cli_unused [] [] s) <->
    exists d, In d (defs s) /\ key_of d = k /\ d_third d = false /\ d_autouse d = false
              /\ cli_count [] [] s k = 0.
  Proof.
    unfold cli_unused. rewrite isort_in, in_map_iff. split.
    - intros [d [<- Hd]]. apply filter_In in Hd as [Hd Hc].
      apply andb_prop in Hc as [Hc H0]. apply andb_prop in Hc as [Ht Ha].
      apply negb_true_iff in Ht, Ha. apply N.eqb_eq in H0. exists d. tauto.
    - intros [d [Hd [<- [Ht [Ha H0]]]]]. exists d. split; [reflexivity|].
      apply filter_In. split; [exact Hd|]. rewrite Ht, Ha, H0. reflexivity.
  Qed.

  (** hence, for a definition that is alone under its (file, name) entry: listed iff it
      is a project fixture, not autouse, and the server reports no reference to it *)
  Corollary unused_iff_no_refs d :
    In d (defs s) ->
    (forall d', In d' (defs s) -> key_of d' = key_of d -> d' = d) ->
    (In (key_of d) (cli_unused [] [] s) <->
     d_third d = false /\ d_autouse d = false /\ refs [] [] s d = []).
  Proof.
    intros Hd Huniq. rewrite unused_iff. split.
    - intros [d' [Hd' [Hk [Ht [Ha H0]]]]]. rewrite (Huniq d' Hd' Hk) in *.
      rewrite (counts_are_refs d Hd Huniq) in H0. repeat split; [exact Ht|exact Ha|].
      destruct (refs [] [] s d); [reflexivity|]. unfold len in H0. cbn in H0. lia.
    - intros [Ht [Ha Hr]]. exists d. repeat split; try assumption.
      rewrite (counts_are_refs d Hd Huniq), Hr. reflexivity.
  Qed.
End Counts.

(** the three flag settings of `fixtures list`: --skip-unused and --only-unused split the
    full list in two *)
Lemma filters_partition s k :
  shown [] [] s false false k = true /\
  shown [] [] s true false k = negb (shown [] [] s false true k).
Proof.
  unfold shown. split; [reflexivity|].
  destruct (cli_count [] [] s k) eqn:E; cbn; destruct (key_autouse s k); reflexivity.
Qed.
