(** * Completeness of the cycle detector: every definition that lies on a dependency cycle
    has a report whose fixture lies in its strongly connected component.
    The argument avoids the white-path theorem: finished nodes are kept in finishing order
    ([visited], newest first); every edge out of a finished node either goes to a node that
    finished EARLIER or met a node on the recursion stack, which reports (or re-finds) a
    cycle inside that node's component.  Along a cycle without a report the finishing time
    would strictly decrease all the way round. *)
From Coq Require Import Arith Lia Relations.
From PLS Require Import Spec.Deps Model.Diagnostics Proofs.Basics Proofs.Cycles.

Section CycleComplete.
  Variable dk : disk.
  Variable roots : list path.
  Variable s : index.
  Hypothesis KU : keys_unique s.

  Notation edge := (edge dk roots s).
  Notation chain := (chain dk roots s).
  Notation visit := (visit dk roots s).
  Notation node_succs := (node_succs dk roots s).

  Definition Reach : fdef -> fdef -> Prop := clos_refl_trans fdef edge.
  Definition InSCC (y z : fdef) : Prop := Reach y z /\ Reach z y.
  Definition Rep (st : dfs_state) (y : fdef) : Prop := exists c, In c (found st) /\ InSCC y (cy_fixture c).

  Lemma Reach_trans x y z : Reach x y -> Reach y z -> Reach x z.
  Proof. apply rt_trans. Qed.
  Lemma InSCC_trans x y z : InSCC x y -> InSCC y z -> InSCC x z.
  Proof. intros [A B] [C D]. split; eapply Reach_trans; eauto. Qed.
  Lemma InSCC_sym x y : InSCC x y -> InSCC y x.
  Proof. intros [A B]. split; assumption. Qed.

  (** ** finishing positions *)
  Fixpoint pos (x : fdef) (l : list fdef) : nat :=
    match l with
    | [] => 0
    | h :: t => if fdef_eqb h x then S (length t) else pos x t
    end.
  Lemma pos_in x l : In x l -> (0 < pos x l)%nat.
  Proof.
    induction l as [|h t IH]; [intros []|]. intros H. cbn [pos]. destruct (fdef_eqb h x) eqn:E; [lia|].
    destruct H as [->|H]; [rewrite fdef_eqb_refl in E; discriminate|now apply IH].
  Qed.
  Lemma pos_le x l : (pos x l <= length l)%nat.
  Proof. induction l as [|h t IH]; [apply le_n|]. cbn [pos length]. destruct (fdef_eqb h x); lia. Qed.
  Lemma pos_notin x l : ~ In x l -> pos x l = 0%nat.
  Proof.
    induction l as [|h t IH]; [reflexivity|]. intros H. cbn [pos]. destruct (fdef_eqb h x) eqn:E.
    - apply fdef_eqb_eq in E. subst. exfalso. apply H. now left.
    - apply IH. intros X. apply H. now right.
  Qed.
  Lemma pos_app_notin x pre l : ~ In x pre -> pos x (pre ++ l) = pos x l.
  Proof.
    induction pre as [|h t IH]; [reflexivity|]. intros H. cbn [app pos]. destruct (fdef_eqb h x) eqn:E.
    - apply fdef_eqb_eq in E. subst. exfalso. apply H. now left.
    - apply IH. intros X. apply H. now right.
  Qed.

  (** ** the invariant on finished nodes *)
  Definition earlier (l : list fdef) (y x : fdef) : Prop := (0 < pos y l)%nat /\ (pos y l < pos x l)%nat.
  Definition fin_ok (st : dfs_state) : Prop :=
    forall x y, In x (visited st) -> edge x y -> earlier (visited st) y x \/ Rep st y.
  Definition keys_ok (st : dfs_state) : Prop :=
    forall k, In k (seen_keys st) -> exists c, In c (found st) /\ In (cy_fixture c) k.

  Lemma subsetb_in (a b : list fdef) x : subsetb fdef_eqb a b = true -> In x a -> In x b.
  Proof.
    unfold subsetb. intros H Hx. rewrite forallb_forall in H. apply H in Hx. now apply memb_fdef_in.
  Qed.

  (** a report (new or already known) puts a fixture into the component of the closing node *)
  Lemma report_rep l d dep st :
    chain (l ++ [d]) -> edge d dep -> In dep (l ++ [d]) -> keys_ok st ->
    keys_ok (report (l ++ [d]) dep st) /\ Rep (report (l ++ [d]) dep st) dep
    /\ (forall c, In c (found st) -> In c (found (report (l ++ [d]) dep st)))
    /\ visited (report (l ++ [d]) dep st) = visited st.
  Proof.
    intros Hc He Hin Hk.
    destruct (drop_until_spec dep _ Hin) as [pre [post [Hp Hd]]].
    assert (Hch : chain (dep :: post)). { apply (chain_suffix dk roots s pre). now rewrite <- Hp. }
    (* every member of dep :: post lies in the component of dep *)
    assert (Hlast : last (dep :: post) dep = d).
    { assert (X : last (l ++ [d]) dep = d) by apply last_last. rewrite Hp in X.
      clear -X. induction pre as [|a pre IH]; [exact X|]. apply IH. cbn [app last] in X.
      destruct (pre ++ dep :: post) eqn:E; [destruct pre; discriminate|exact X]. }
    assert (Hfrom : forall m, In m (dep :: post) -> Reach dep m /\ Reach m d).
    { clear -Hch Hlast. revert dep Hch Hlast. induction post as [|y post IH]; intros dep Hch Hlast m Hm.
      - destruct Hm as [<-|[]]. cbn in Hlast. subst. split; apply rt_refl.
      - cbn [chain] in Hch. destruct Hch as (_ & Hed & Hr).
        assert (Hl : last (y :: post) y = d) by (rewrite (last_nonempty_default y post y dep); exact Hlast).
        destruct Hm as [<-|Hm].
        + split; [apply rt_refl|]. eapply rt_trans; [apply rt_step; exact Hed|]. apply (IH y Hr Hl y). now left.
        + destruct (IH y Hr Hl m Hm) as [A B]. split; [|exact B]. eapply rt_trans; [apply rt_step; exact Hed|exact A]. }
    assert (Hscc : forall m, In m (dep :: post) -> InSCC dep m).
    { intros m Hm. destruct (Hfrom m Hm) as [A B]. split; [exact A|]. eapply rt_trans; [exact B|apply rt_step; exact He]. }
    unfold report. rewrite Hd.
    destruct (memb key_eqb (dep :: post) (seen_keys st)) eqn:Em.
    - (* the same member set was reported before *)
      split; [exact Hk|]. split; [|split; [auto|reflexivity]].
      unfold memb in Em. apply existsb_exists in Em as [k [Hkin Hke]].
      destruct (Hk k Hkin) as [c [Hc1 Hc2]]. exists c. split; [exact Hc1|].
      apply Hscc. unfold key_eqb, set_eqb in Hke. apply andb_prop in Hke as [_ H2]. eapply subsetb_in; eauto.
    - cbn [found seen_keys visited]. split; [|split; [|split; [|reflexivity]]].
      + intros k Hkin. apply in_app_iff in Hkin as [Hkin|[<-|[]]].
        * destruct (Hk k Hkin) as [c [Hc1 Hc2]]. exists c. split; [apply in_or_app; now left|exact Hc2].
        * eexists. split; [apply in_or_app; right; now left|]. cbn [cy_fixture]. now left.
      + eexists. split; [apply in_or_app; right; now left|]. cbn [cy_fixture]. split; apply rt_refl.
      + intros c Hc0. apply in_or_app. now left.
  Qed.

  Lemma Rep_mono st st' y : (forall c, In c (found st) -> In c (found st')) -> Rep st y -> Rep st' y.
  Proof. intros H [c [Hc Hs]]. exists c. split; [now apply H|exact Hs]. Qed.

  (** ** one visit *)
  Record visit_post (rec : list fdef) (d : fdef) (st st' : dfs_state) : Prop := {
    vp_visited : exists W, visited st' = d :: W ++ visited st /\ (forall x, In x W -> ~ In x (visited st) /\ mem_node x (d :: rec) = false);
    vp_found : forall c, In c (found st) -> In c (found st');
    vp_keys : keys_ok st';
    vp_fin : fin_ok st' }.

  Definition nodes_ok (l : list fdef) : Prop := forall x, In x l -> In x (defs s).

  Lemma mem_node_in x l : mem_node x l = true <-> In x l.
  Proof. unfold mem_node. apply memb_fdef_in. Qed.

  Lemma edge_in_defs x y : In x (defs s) -> edge x y -> In y (defs s).
  Proof. intros Hx He. now destruct (edge_step dk roots s KU x y Hx He). Qed.

  Lemma visit_complete : forall fuel rec pth d st,
    (length (nodes s) < fuel + length rec)%nat ->
    NoDup rec -> nodes_ok rec -> ~ In d rec -> In d (defs s) ->
    chain (pth ++ [d]) -> (forall x, mem_node x rec = true -> In x pth) ->
    ~ In d (visited st) -> NoDup (visited st) -> nodes_ok (visited st) ->
    (forall x, In x rec -> ~ In x (visited st)) ->
    keys_ok st -> fin_ok st ->
    visit_post rec d st (visit fuel rec pth d st)
    /\ NoDup (visited (visit fuel rec pth d st)) /\ nodes_ok (visited (visit fuel rec pth d st)).
  Proof.
    induction fuel as [|fuel IH]; intros rec pth d st Hfuel Hnd Hrok Hdr Hd Hc Hrec Hdv Hvnd Hvok Hdisj Hk Hf.
    - (* out of fuel: impossible, the recursion stack would hold more nodes than exist *)
      exfalso. cbn in Hfuel.
      assert (Hincl : incl (d :: rec) (nodes s)).
      { intros x [<-|Hx]; apply (nodes_in s); [exact Hd|now apply Hrok]. }
      assert (Hnd' : NoDup (d :: rec)) by (constructor; assumption).
      pose proof (NoDup_incl_length Hnd' Hincl) as L. cbn [length] in L. lia.
    - cbn [Diagnostics.visit].
      set (rec' := d :: rec). set (pth' := pth ++ [d]).
      assert (Hrec' : forall x, mem_node x rec' = true -> In x pth').
      { intros x Hx. apply mem_node_in in Hx. destruct Hx as [<-|Hx]; unfold pth'; apply in_or_app; [right; now left|left].
        apply Hrec. now apply mem_node_in. }
      (* the loop over the dependencies of d *)
      assert (G : forall succs st0,
                 (forall y, In y succs -> edge d y) ->
                 (exists W, visited st0 = W ++ visited st /\ (forall x, In x W -> ~ In x (visited st) /\ mem_node x rec' = false)) ->
                 (forall c, In c (found st) -> In c (found st0)) ->
                 keys_ok st0 -> fin_ok st0 -> NoDup (visited st0) -> nodes_ok (visited st0) ->
                 let st1 := fold_left (fun st1 dep =>
                                         if mem_node dep rec' then report pth' dep st1
                                         else if mem_node dep (visited st1) then st1
                                         else visit fuel rec' pth' dep st1) succs st0 in
                 (exists W, visited st1 = W ++ visited st /\ (forall x, In x W -> ~ In x (visited st) /\ mem_node x rec' = false))
                 /\ (forall c, In c (found st0) -> In c (found st1))
                 /\ keys_ok st1 /\ fin_ok st1 /\ NoDup (visited st1) /\ nodes_ok (visited st1)
                 /\ (forall y, In y succs -> In y (visited st1) \/ Rep st1 y)
                 /\ (forall x, In x (visited st0) -> In x (visited st1))).
      { induction succs as [|y succs IHs]; intros st0 He HW Hfd Hk0 Hf0 Hnd0 Hok0; cbn [fold_left].
        - repeat split; auto. intros y [].
        - assert (Hey : edge d y) by (apply He; now left).
          (* one dependency *)
          assert (Step : exists st2,
                     st2 = (if mem_node y rec' then report pth' y st0
                            else if mem_node y (visited st0) then st0 else visit fuel rec' pth' y st0)
                     /\ (exists W, visited st2 = W ++ visited st /\ (forall x, In x W -> ~ In x (visited st) /\ mem_node x rec' = false))
                     /\ (forall c, In c (found st0) -> In c (found st2))
                     /\ keys_ok st2 /\ fin_ok st2 /\ NoDup (visited st2) /\ nodes_ok (visited st2)
                     /\ (In y (visited st2) \/ Rep st2 y)
                     /\ (forall x, In x (visited st0) -> In x (visited st2))).
          { eexists. split; [reflexivity|].
            destruct (mem_node y rec') eqn:Er.
            - (* y is on the recursion stack: a cycle through y *)
              destruct (report_rep pth d y st0 Hc Hey (Hrec' y Er) Hk0) as (R1 & R2 & R3 & R4).
              fold pth' in R1, R2, R3, R4. rewrite R4.
              split; [exact HW|]. split; [exact R3|]. split; [exact R1|]. split.
              + intros x z Hx Hz. rewrite R4 in *. destruct (Hf0 x z Hx Hz) as [H|H]; [now left|right].
                eapply Rep_mono; eauto.
              + split; [exact Hnd0|]. split; [exact Hok0|]. split; [now right|auto].
            - destruct (mem_node y (visited st0)) eqn:Ev.
              + apply mem_node_in in Ev. repeat split; auto.
              + (* a new node: recurse *)
                assert (Hyr : ~ In y rec') by (intros X; apply mem_node_in in X; congruence).
                assert (Hyv : ~ In y (visited st0)) by (intros X; apply mem_node_in in X; congruence).
                assert (Hyd : In y (defs s)) by (eapply edge_in_defs; eauto).
                destruct HW as [W [HW1 HW2]].
                assert (Hdisj0 : forall x, In x rec' -> ~ In x (visited st0)).
                { intros x Hx Hv. rewrite HW1 in Hv. apply in_app_iff in Hv as [Hv|Hv].
                  - destruct (HW2 x Hv) as [_ Hm]. apply mem_node_in in Hx. congruence.
                  - destruct Hx as [<-|Hx]; [now apply Hdv|now apply (Hdisj x)]. }
                destruct (IH rec' pth' y st0) as [[V1 V2 V3 V4] [V5 V6]]; try assumption.
                * unfold rec'. cbn [length]. lia.
                * constructor; assumption.
                * intros x [<-|Hx]; [exact Hd|now apply Hrok].
                * unfold pth'. rewrite <- app_assoc. apply (chain_app_one dk roots s KU); assumption.
                * destruct V1 as [W' [E1 E2]].
                  split.
                  { exists (y :: W' ++ W). split; [rewrite E1, HW1; cbn [app]; now rewrite <- app_assoc|].
                    intros x [<-|Hx].
                    - split; [|destruct (mem_node y rec') eqn:Q; [apply mem_node_in in Q; contradiction|reflexivity]].
                      intros X. apply Hyv. rewrite HW1. apply in_or_app. now right.
                    - apply in_app_iff in Hx as [Hx|Hx]; [|now apply HW2].
                      destruct (E2 x Hx) as [A B]. split.
                      + intros X. apply A. rewrite HW1. apply in_or_app. now right.
                      + cbn [mem_node memb existsb] in B. unfold mem_node, memb in B. cbn [existsb] in B.
                        apply orb_false_iff in B as [_ B]. exact B. }
                  split; [exact V2|]. split; [exact V3|]. split; [exact V4|]. split; [exact V5|]. split; [exact V6|].
                  split; [left; rewrite E1; now left|].
                  intros x Hx. rewrite E1. right. apply in_or_app. now right. }
          destruct Step as [st2 (E2 & SW & Sfd & Sk & Sf & Snd & Sok & Sy & Smono)]. rewrite <- E2.
          destruct (IHs st2 (fun z Hz => He z (or_intror Hz)) SW (fun c Hc0 => Sfd c (Hfd c Hc0)) Sk Sf Snd Sok)
            as (T1 & T2 & T3 & T4 & T5 & T6 & T7 & T8).
          split; [exact T1|]. split; [intros c Hc0; apply T2; now apply Sfd|]. split; [exact T3|]. split; [exact T4|].
          split; [exact T5|]. split; [exact T6|]. split.
          + intros z [<-|Hz]; [|now apply T7]. destruct Sy as [Sy|Sy]; [left; now apply T8|right; eapply Rep_mono; eauto].
          + intros x Hx. apply T8. now apply Smono. }
      destruct (G (node_succs d) st (fun y Hy => Hy) (ex_intro _ [] (conj eq_refl (fun x (H : In x []) => match H with end)))
                  (fun c Hc0 => Hc0) Hk Hf Hvnd Hvok) as (G1 & G2 & G3 & G4 & G5 & G6 & G7 & G8).
      set (st1 := fold_left _ (node_succs d) st) in *.
      destruct G1 as [W [GW1 GW2]].
      assert (Hd1 : ~ In d (visited st1)).
      { rewrite GW1. intros X. apply in_app_iff in X as [X|X]; [|contradiction].
        destruct (GW2 d X) as [_ B]. unfold rec', mem_node, memb in B. cbn [existsb] in B. rewrite fdef_eqb_refl in B. discriminate. }
      split; [constructor|split].
      + cbn [visited]. exists W. split; [now rewrite GW1|exact GW2].
      + exact G2.
      + exact G3.
      + (* the invariant for the new finished node and the old ones *)
        intros x y Hx Hxy. cbn [visited] in *.
        assert (Rm : forall z, Rep st1 z -> Rep (mk_dfs (d :: visited st1) (seen_keys st1) (found st1)) z)
          by (intros z [c [A B]]; exists c; split; assumption).
        destruct Hx as [<-|Hx].
        * destruct (G7 y Hxy) as [Hy|Hy]; [|right; now apply Rm].
          left. unfold earlier. cbn [pos]. rewrite fdef_eqb_refl.
          assert (Hne : fdef_eqb d y = false).
          { destruct (fdef_eqb d y) eqn:E; [|reflexivity]. apply fdef_eqb_eq in E. subst. contradiction. }
          rewrite Hne. split; [now apply pos_in|]. pose proof (pos_le y (visited st1)). lia.
        * destruct (G4 x y Hx Hxy) as [[A B]|Hy]; [|right; now apply Rm].
          left. unfold earlier. cbn [pos].
          assert (Hnx : fdef_eqb d x = false).
          { destruct (fdef_eqb d x) eqn:E; [|reflexivity]. apply fdef_eqb_eq in E. subst. contradiction. }
          assert (Hny : fdef_eqb d y = false).
          { destruct (fdef_eqb d y) eqn:E; [|reflexivity]. apply fdef_eqb_eq in E. subst.
            exfalso. rewrite (pos_notin y (visited st1) Hd1) in A. lia. }
          rewrite Hnx, Hny. split; assumption.
      + cbn [visited]. constructor; assumption.
      + cbn [visited]. intros x [<-|Hx]; [exact Hd|now apply G6].
  Qed.

  (** ** the whole detector *)
  Definition top_fold (l : list fdef) (st : dfs_state) : dfs_state :=
    fold_left (fun st d => if mem_node d (visited st) then st
                           else visit (S (List.length (nodes s))) [] [] d st) l st.

  Lemma top_fold_complete : forall l st,
    nodes_ok l -> NoDup (visited st) -> nodes_ok (visited st) -> keys_ok st -> fin_ok st ->
    let st' := top_fold l st in
    NoDup (visited st') /\ nodes_ok (visited st') /\ keys_ok st' /\ fin_ok st'
    /\ (forall x, In x (visited st) -> In x (visited st'))
    /\ (forall x, In x l -> In x (visited st')).
  Proof.
    induction l as [|d l IHl]; intros st Hl Hnd Hok Hk Hf; cbn [top_fold fold_left].
    - repeat split; auto. intros x [].
    - assert (Hl' : nodes_ok l) by (intros x Hx; apply Hl; now right).
      destruct (mem_node d (visited st)) eqn:Em.
      + destruct (IHl st Hl' Hnd Hok Hk Hf) as (A & B & C & D & E & F).
        repeat split; auto. intros x [<-|Hx]; [apply E; now apply mem_node_in|now apply F].
      + assert (Hdv : ~ In d (visited st)) by (intros X; apply mem_node_in in X; congruence).
        assert (Hdd : In d (defs s)) by (apply Hl; now left).
        assert (P1 : (length (nodes s) < S (length (nodes s)) + length (@nil fdef))%nat) by (cbn [length]; lia).
        assert (P3 : nodes_ok []) by (intros x []).
        assert (P4 : ~ In d []) by (intros []).
        assert (P6 : chain ([] ++ [d])) by (cbn; repeat split; auto).
        assert (P7 : forall x, mem_node x [] = true -> In x []) by (intros x Hx; discriminate).
        assert (P11 : forall x, In x [] -> ~ In x (visited st)) by (intros x []).
        destruct (visit_complete (S (length (nodes s))) [] [] d st P1 (NoDup_nil _) P3 P4 Hdd P6 P7 Hdv Hnd Hok P11 Hk Hf)
          as [[V1 V2 V3 V4] [V5 V6]].
        destruct V1 as [W [E1 E2]].
        destruct (IHl _ Hl' V5 V6 V3 V4) as (A & B & C & D & E & F).
        repeat split; auto.
        * intros x Hx. apply E. rewrite E1. right. apply in_or_app. now right.
        * intros x [<-|Hx]; [apply E; rewrite E1; now left|now apply F].
  Qed.

  Lemma pos_pos_in x l : (0 < pos x l)%nat -> In x l.
  Proof.
    induction l as [|h t IH]; cbn [pos]; [lia|]. destruct (fdef_eqb h x) eqn:E.
    - apply fdef_eqb_eq in E. subst. now left.
    - intros H. right. now apply IH.
  Qed.

  (** along any path out of a finished node: a reported component is met, or the finishing
      time does not increase *)
  Lemma path_descends st x y :
    fin_ok st -> In x (visited st) -> Reach x y ->
    (exists z, Reach x z /\ Reach z y /\ Rep st z) \/ ((0 < pos y (visited st))%nat /\ (pos y (visited st) <= pos x (visited st))%nat).
  Proof.
    intros Hf Hx Hr. apply clos_rt_rt1n in Hr. induction Hr as [x|x w y Hxw Hwy IH].
    - right. split; [now apply pos_in|apply le_n].
    - destruct (Hf x w Hx Hxw) as [[A B]|HR].
      + destruct (IH (pos_pos_in _ _ A)) as [[z (Z1 & Z2 & Z3)]|[P1 P2]].
        * left. exists z. split; [|split; assumption]. eapply rt_trans; [apply rt_step; exact Hxw|exact Z1].
        * right. split; [exact P1|lia].
      + left. exists w. split; [apply rt_step; exact Hxw|]. split; [now apply clos_rt1n_rt|exact HR].
  Qed.

  Theorem cycles_cold_complete d y :
    In d (defs s) -> edge d y -> Reach y d ->
    exists c, In c (cycles_cold dk roots s) /\ InSCC d (cy_fixture c).
  Proof.
    intros Hd Hdy Hyd. unfold cycles_cold. fold (top_fold (nodes s) (mk_dfs [] [] [])).
    destruct (top_fold_complete (nodes s) (mk_dfs [] [] [])) as (A & B & C & D & _ & F).
    - intros x Hx. now apply (nodes_in s).
    - constructor.
    - intros x [].
    - intros k [].
    - intros x z [].
    - set (stF := top_fold (nodes s) (mk_dfs [] [] [])) in *.
      assert (Hdv : In d (visited stF)) by (apply F; now apply (nodes_in s)).
      assert (Hscc : forall z, Reach y z -> Reach z d -> Rep stF z -> exists c, In c (found stF) /\ InSCC d (cy_fixture c)).
      { intros z Z1 Z2 [c [Hc Hs]]. exists c. split; [exact Hc|]. eapply InSCC_trans; [|exact Hs].
        split; [eapply rt_trans; [apply rt_step; exact Hdy|exact Z1]|exact Z2]. }
      destruct (D d y Hdv Hdy) as [[P1 P2]|HR].
      + destruct (path_descends stF y d D (pos_pos_in _ _ P1) Hyd) as [[z (Z1 & Z2 & Z3)]|[Q1 Q2]].
        * now apply (Hscc z).
        * exfalso. lia.
      + apply (Hscc y); [apply rt_refl|exact Hyd|exact HR].
  Qed.

  (** ** the same statement over the specification's dependency relation: [y] is the
      definition go-to-definition selects, from [x]'s file, for a name [x] requests *)
  Definition dep_edge (x y : fdef) : Prop :=
    In x (defs s) /\ exists n, In n (d_deps x) /\ dep_target dk roots s x n = Some y.
  Definition dep_reach : fdef -> fdef -> Prop := clos_refl_trans fdef dep_edge.

  Lemma dep_edge_edge x y : dep_edge x y -> edge x y.
  Proof.
    intros [Hx [n [Hn Ht]]]. unfold Cycles.edge, Diagnostics.node_succs. apply in_flat_map. exists n. split; [exact Hn|].
    rewrite Ht. destruct (dep_target_in dk roots s x n y Hx Ht) as [Hy _].
    rewrite (node_of_self s KU y Hy). now left.
  Qed.
  Lemma edge_dep_edge x y : In x (defs s) -> edge x y -> dep_edge x y.
  Proof.
    intros Hx He. destruct (edge_step dk roots s KU x y Hx He) as (_ & Hm & Ht).
    split; [exact Hx|]. exists (d_name y). split; [now apply mem_str_in|exact Ht].
  Qed.
  Lemma dep_reach_Reach x y : dep_reach x y -> Reach x y.
  Proof.
    intros H. induction H as [x y H|x|x y z _ IH1 _ IH2]; [apply rt_step; now apply dep_edge_edge|apply rt_refl|eapply rt_trans; eauto].
  Qed.
  Lemma Reach_dep_reach x y : In x (defs s) -> Reach x y -> dep_reach x y /\ In y (defs s).
  Proof.
    intros Hx H. apply clos_rt_rt1n in H. revert Hx. induction H as [x|x w y Hxw _ IH]; intros Hx; [split; [apply rt_refl|exact Hx]|].
    destruct (IH (edge_in_defs x w Hx Hxw)) as [A B]. split; [|exact B].
    eapply rt_trans; [apply rt_step; exact (edge_dep_edge x w Hx Hxw)|exact A].
  Qed.

  Theorem cycles_cold_complete_spec d y :
    dep_edge d y -> dep_reach y d ->
    exists c, In c (cycles_cold dk roots s) /\ dep_reach d (cy_fixture c) /\ dep_reach (cy_fixture c) d.
  Proof.
    intros Hdy Hyd. pose proof Hdy as [Hd _].
    destruct (cycles_cold_complete d y Hd (dep_edge_edge d y Hdy) (dep_reach_Reach y d Hyd)) as [c [Hc [A B]]].
    exists c. split; [exact Hc|]. destruct (Reach_dep_reach d _ Hd A) as [A' Hf]. split; [exact A'|].
    apply (Reach_dep_reach _ d Hf B).
  Qed.
End CycleComplete.
