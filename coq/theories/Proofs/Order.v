(** * Proofs/Order: answers do not depend on the order in which files are analysed (C08).
    The only effect the parallel scan's schedule has on the index is the order of the
    per-file analyses (C09); by C06's canonical form the index after analysing the
    files in order [o] is [canonical P o].  Permuting [o] permutes whole per-file blocks. *)
From PLS Require Import Check.C16 Model.History Proofs.Basics Proofs.History.
From Coq Require Import Permutation Lia.

Lemma filter_flat_map_block {V B} (G : path) (o : list (path * V)) (g : path * V -> list B) (key : B -> path) :
  (forall fv b, In b (g fv) -> key b = fst fv) ->
  NoDup (map fst o) ->
  forall v, In (G, v) o -> filter (fun b => path_eqb (key b) G) (flat_map g o) = g (G, v).
Proof.
  intros Hk. induction o as [|fv o IH]; intros Hn v Hin; [destruct Hin|].
  cbn [flat_map]. rewrite filter_app. inversion Hn as [|? ? Hnot Hn']; subst.
  destruct Hin as [->|Hin].
  - rewrite filter_all_true by (intros b Hb; rewrite (Hk _ b Hb); apply path_eqb_refl).
    rewrite filter_all_false; [now rewrite app_nil_r|].
    intros b Hb. apply in_flat_map in Hb as [fv' [Hfv' Hb]]. rewrite (Hk _ b Hb).
    apply path_eqb_neq. intros E. apply Hnot. cbn [fst]. rewrite <- E. now apply in_map.
  - rewrite filter_all_false.
    + cbn [app]. now apply IH.
    + intros b Hb. rewrite (Hk _ b Hb). apply path_eqb_neq. intros E. apply Hnot. rewrite E.
      change G with (fst (G, v)). now apply in_map.
Qed.

Lemma filter_flat_map_absent {V B} (G : path) (o : list (path * V)) (g : path * V -> list B) (key : B -> path) :
  (forall fv b, In b (g fv) -> key b = fst fv) ->
  ~ In G (map fst o) -> filter (fun b => path_eqb (key b) G) (flat_map g o) = [].
Proof.
  intros Hk Hn. apply filter_all_false. intros b Hb. apply in_flat_map in Hb as [fv [Hfv Hb]].
  rewrite (Hk _ b Hb). apply path_eqb_neq. intros E. apply Hn. rewrite <- E. now apply in_map.
Qed.

(** the block of file G in the definitions / usages of a scan *)
Theorem scan_def_blocks_eq P o1 o2 :
  Permutation o1 o2 -> wf_lv o1 ->
  forall G, filter (fun d => path_eqb (d_file d) G) (defs (run_hist (start P) o1))
          = filter (fun d => path_eqb (d_file d) G) (defs (run_hist (start P) o2)).
Proof.
  intros Hp [Hn Hok] G.
  assert (W2 : wf_lv o2).
  { split; [eapply Permutation_NoDup; [apply Permutation_map; exact Hp|exact Hn]|].
    eapply Permutation_Forall; eauto. }
  pose proof (run_hist_agrees P o1) as A1. pose proof (run_hist_agrees P o2) as A2.
  rewrite (last_valid_idempotent o1 (conj Hn Hok)) in A1. rewrite (last_valid_idempotent o2 W2) in A2.
  apply agrees_fields in A1 as (D1 & _). apply agrees_fields in A2 as (D2 & _). rewrite D1, D2. unfold c_defs.
  assert (Hk : forall (fv : path * facts) b, In b (map (attach_p P (fst fv)) (item_defs (f_items (snd fv)))) -> d_file b = fst fv).
  { intros fv b Hb. apply in_map_iff in Hb as [l [<- _]]. reflexivity. }
  destruct (in_dec (list_eq_dec string_dec) G (map fst o1)) as [Hin|Hout].
  - apply in_map_iff in Hin as [[G' v] [E Hin]]. cbn in E. subst G'.
    rewrite (filter_flat_map_block G o1 _ d_file Hk Hn v Hin).
    rewrite (filter_flat_map_block G o2 _ d_file Hk (proj1 W2) v (Permutation_in _ Hp Hin)). reflexivity.
  - rewrite (filter_flat_map_absent G o1 _ d_file Hk Hout).
    rewrite (filter_flat_map_absent G o2 _ d_file Hk); [reflexivity|].
    intros Hin. apply Hout. eapply Permutation_in; [symmetry; apply Permutation_map; exact Hp|exact Hin].
Qed.

(** ** resolution is the same for two indexes with equal per-file blocks, whenever the
    name is not supplied through a conftest import on the path and its plugin /
    third-party providers sit in a single file *)
Section SameBlocks.
  Variable dk : disk.
  Variable roots : list path.
  Variables s1 s2 : index.
  Variable n : string.

  Hypothesis blocks : forall G, defs_in s1 G n = defs_in s2 G n.
  Hypothesis same_cache : forall p, in_cache s1 p = in_cache s2 p.

  Lemma last_binding_eq flt G : last_binding flt (defs_named s1 n) G = last_binding flt (defs_named s2 n) G.
  Proof. unfold last_binding. change (filter (fun d => path_eqb (d_file d) G) (defs_named s1 n)) with (defs_in s1 G n).
         change (filter (fun d => path_eqb (d_file d) G) (defs_named s2 n)) with (defs_in s2 G n). now rewrite blocks. Qed.

  Lemma find_single_file (p : fdef -> bool) G :
    (forall d, In d (defs_named s1 n) -> p d = true -> d_file d = G) ->
    (forall d, In d (defs_named s2 n) -> p d = true -> d_file d = G) ->
    find p (defs_named s1 n) = find p (defs_named s2 n).
  Proof.
    intros H1 H2.
    assert (X : forall l, (forall d, In d l -> p d = true -> d_file d = G) ->
                find p l = find p (filter (fun d => path_eqb (d_file d) G) l)).
    { induction l as [|d l IH]; intros H; cbn; [reflexivity|].
      destruct (p d) eqn:E.
      - rewrite (H d (or_introl eq_refl) E), path_eqb_refl. cbn. now rewrite E.
      - rewrite IH by (intros x Hx; apply H; now right).
        destruct (path_eqb (d_file d) G); cbn; [now rewrite E|reflexivity]. }
    rewrite (X _ H1), (X _ H2).
    change (filter (fun d => path_eqb (d_file d) G) (defs_named s1 n)) with (defs_in s1 G n).
    change (filter (fun d => path_eqb (d_file d) G) (defs_named s2 n)) with (defs_in s2 G n). now rewrite blocks.
  Qed.

  Theorem closest_with_same_blocks flt F Gp Gt :
    (forall dir, In dir (ancestors (tl F)) ->
                 is_imported dk roots s1 n (conftest_py :: dir) = false /\
                 is_imported dk roots s2 n (conftest_py :: dir) = false) ->
    (forall d, (In d (defs_named s1 n) \/ In d (defs_named s2 n)) -> d_plugin d && negb (d_third d) && flt d = true -> d_file d = Gp) ->
    (forall d, (In d (defs_named s1 n) \/ In d (defs_named s2 n)) -> d_third d && flt d = true -> d_file d = Gt) ->
    closest_with dk roots s1 flt F n = closest_with dk roots s2 flt F n.
  Proof.
    intros Himp Hp Ht. unfold closest_with.
    assert (Hnil : defs_named s1 n = [] <-> defs_named s2 n = []).
    { assert (X : forall sa sb, (forall G, defs_in sa G n = defs_in sb G n) -> defs_named sa n = [] -> defs_named sb n = []).
      { intros sa sb Hb E. destruct (defs_named sb n) as [|d l] eqn:Eb; [reflexivity|]. exfalso.
        assert (Hin : In d (defs_in sb (d_file d) n)).
        { unfold defs_in. apply filter_In. split; [rewrite Eb; now left|apply path_eqb_refl]. }
        rewrite <- Hb in Hin. unfold defs_in in Hin. rewrite E in Hin. destruct Hin. }
      split; [apply X; exact blocks|apply X; intros G; symmetry; apply blocks]. }
    destruct (defs_named s1 n) as [|a1 l1] eqn:E1; destruct (defs_named s2 n) as [|a2 l2] eqn:E2;
      [reflexivity|exfalso; destruct Hnil as [X _]; discriminate (X eq_refl)|exfalso; destruct Hnil as [_ X]; discriminate (X eq_refl)|].
    rewrite <- E1, <- E2. rewrite (last_binding_eq flt F).
    destruct (last_binding flt (defs_named s2 n) F); [reflexivity|].
    destruct F as [|f dir]; [reflexivity|]. cbn [tl] in Himp.
    assert (W : forall dirs, (forall d, In d dirs -> In d (ancestors dir)) ->
                first_some (conftest_step dk roots s1 flt (defs_named s1 n) n) dirs
                = first_some (conftest_step dk roots s2 flt (defs_named s2 n) n) dirs).
    { induction dirs as [|d dirs IHd]; intros Hsub; [reflexivity|]. cbn [first_some].
      assert (Es : conftest_step dk roots s1 flt (defs_named s1 n) n d = conftest_step dk roots s2 flt (defs_named s2 n) n d).
      { unfold conftest_step. rewrite (last_binding_eq flt (conftest_py :: d)).
        destruct (last_binding flt (defs_named s2 n) (conftest_py :: d)); [reflexivity|].
        destruct (Himp d (Hsub d (or_introl eq_refl))) as [I1 I2]. rewrite I1, I2, !andb_false_r. reflexivity. }
      rewrite Es, IHd; [reflexivity|intros x Hx; apply Hsub; now right]. }
    rewrite (W (ancestors dir) (fun d H => H)).
    destruct (first_some (conftest_step dk roots s2 flt (defs_named s2 n) n) (ancestors dir)); [reflexivity|].
    rewrite (find_single_file (fun d => d_plugin d && negb (d_third d) && flt d) Gp);
      [|intros d Hd Hpd; apply Hp; [left; now rewrite <- E1|exact Hpd]
       |intros d Hd Hpd; apply Hp; [right; now rewrite <- E2|exact Hpd]].
    destruct (find (fun d => d_plugin d && negb (d_third d) && flt d) (defs_named s2 n)); [reflexivity|].
    apply (find_single_file (fun d => d_third d && flt d) Gt); intros d Hd Htd; apply Ht; auto;
      [left; now rewrite <- E1|right; now rewrite <- E2].
  Qed.
End SameBlocks.
