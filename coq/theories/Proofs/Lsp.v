(** * Proofs for C19: the published diagnostics are the findings of the latest content,
    filtered by the configuration; invalid configuration elements are ignored one by one. *)
From Coq Require Import Lia.
From PLS Require Import Model.Lsp Model.History Proofs.Basics Proofs.History Proofs.CacheValid.

(** ** configuration *)
Section Cfg.
  Variable glob_valid : string -> bool.

  Lemma filter_drop_one {A} (p : A -> bool) a x b : p x = false -> filter p (a ++ x :: b) = filter p (a ++ b).
  Proof. intros H. rewrite !filter_app. cbn [filter]. now rewrite H. Qed.

  (** an unknown diagnostic code changes nothing *)
  Theorem unknown_code_ignored ex a bad b :
    mem_str bad valid_diagnostic_codes = false ->
    from_raw glob_valid ex (a ++ bad :: b) = from_raw glob_valid ex (a ++ b).
  Proof. intros H. unfold from_raw. f_equal. now apply filter_drop_one. Qed.

  (** an invalid glob pattern changes nothing *)
  Theorem invalid_pattern_ignored dis a bad b :
    glob_valid bad = false ->
    from_raw glob_valid (a ++ bad :: b) dis = from_raw glob_valid (a ++ b) dis.
  Proof. intros H. unfold from_raw. f_equal. now apply filter_drop_one. Qed.

  (** valid elements are kept, in order *)
  Theorem valid_config_kept ex dis :
    (forall p, In p ex -> glob_valid p = true) ->
    (forall c, In c dis -> mem_str c valid_diagnostic_codes = true) ->
    from_raw glob_valid ex dis = mk_config ex dis.
  Proof.
    intros H1 H2. unfold from_raw. f_equal; apply filter_all_true; assumption.
  Qed.

  (** a code is disabled iff it was listed (every real code is a valid one) *)
  Theorem disabled_iff_listed ex dis c :
    is_disabled (from_raw glob_valid ex dis) c = mem_str (code_string c) dis.
  Proof.
    unfold is_disabled, from_raw. cbn [cfg_disabled].
    destruct (mem_str (code_string c) dis) eqn:E.
    - apply mem_str_in. apply filter_In. split; [now apply mem_str_in|]. destruct c; reflexivity.
    - destruct (mem_str (code_string c) (filter _ dis)) eqn:E2; [|reflexivity].
      apply mem_str_in in E2. apply filter_In in E2 as [E2 _]. apply mem_str_in in E2. congruence.
  Qed.
End Cfg.

(** ** the filter *)
Section Filter.
  Variable dk : disk.
  Variable roots : list path.
  Variable s : index.
  Variable F : path.

  Lemma map_code_filter {A} (f : A -> diag) c (l : list A) cfg :
    (forall x, dg_code (f x) = c) ->
    filter (fun d => negb (is_disabled cfg (dg_code d))) (map f l)
    = if is_disabled cfg c then [] else map f l.
  Proof.
    intros H. destruct (is_disabled cfg c) eqn:E.
    - apply filter_all_false. intros d Hd. apply in_map_iff in Hd as [x [<- _]]. now rewrite H, E.
    - apply filter_all_true. intros d Hd. apply in_map_iff in Hd as [x [<- _]]. now rewrite H, E.
  Qed.

  (** what is published = the findings, minus exactly the disabled codes *)
  Theorem publish_is_filtered_findings cfg :
    publish dk roots cfg s F
    = filter (fun d => negb (is_disabled cfg (dg_code d))) (findings dk roots s F).
  Proof.
    unfold findings, publish. change (is_disabled default_config _) with false. cbn iota.
    rewrite !filter_app.
    rewrite (map_code_filter undecl_diag DUndeclared), (map_code_filter (cycle_diag) DCycle),
            (map_code_filter mismatch_diag DMismatch); reflexivity.
  Qed.

  Corollary nothing_disabled_is_published cfg d :
    In d (publish dk roots cfg s F) -> is_disabled cfg (dg_code d) = false.
  Proof.
    rewrite publish_is_filtered_findings. intros H. apply filter_In in H as [_ H]. now apply negb_true_iff in H.
  Qed.
End Filter.

(** ** the cycle memo never serves a stale list after a notification *)
Definition cyc_bounded (s : index) : Prop :=
  forall v l, cyc_cache s = Some (v, l) -> v <= version s.


Lemma visit_item_cyc F s it : cyc_cache (visit_item F s it) = cyc_cache s.
Proof.
  destruct it as [u|l|b]; cbn; [reflexivity| |reflexivity].
  unfold record_def. cbn. destruct (existsb _ _); reflexivity.
Qed.
Lemma fold_visit_cyc F items s : cyc_cache (fold_left (visit_item F) items s) = cyc_cache s.
Proof. revert s. induction items as [|it items IH]; intros s; cbn; [reflexivity|]. now rewrite IH, visit_item_cyc. Qed.
Lemma analyze_cyc_cache c F v s : cyc_cache (analyze c F v s) = cyc_cache s.
Proof.
  unfold analyze. destruct (negb (f_ok v)); [reflexivity|]. rewrite fold_visit_cyc. destruct c; reflexivity.
Qed.

Theorem cycles_after_notification_are_recomputed dk roots c F v s :
  cyc_bounded s ->
  cycles dk roots (analyze c F v s) = cycles_cold dk roots (analyze c F v s).
Proof.
  intros Hb. unfold cycles, cyc_hit. rewrite analyze_cyc_cache.
  destruct (cyc_cache s) as [[v0 l]|] eqn:E; [|reflexivity].
  specialize (Hb v0 l E). pose proof (analyze_version_grows c F v s).
  destruct (v0 =? version (analyze c F v s)) eqn:E2; [|reflexivity]. apply N.eqb_eq in E2. lia.
Qed.

Lemma cyc_bounded_analyze c F v s : cyc_bounded s -> cyc_bounded (analyze c F v s).
Proof.
  intros Hb v0 l H. rewrite analyze_cyc_cache in H. specialize (Hb v0 l H).
  pose proof (analyze_version_grows c F v s). lia.
Qed.
Lemma cyc_bounded_post_cycles dk roots s : cyc_bounded s -> cyc_bounded (post_cycles dk roots s).
Proof.
  intros Hb. unfold post_cycles. destruct (cyc_hit s); [exact Hb|].
  intros v0 l H. cbn [cyc_cache set_cyc_cache] in H. injection H as <- _. cbn [version set_cyc_cache].
  (* the dependency resolutions only touch the imported-fixture memo *)
  assert (E : forall ds s0, version (fold_left (fun s1 d =>
             fold_left (fun s2 n => if String.eqb n (d_name d)
                                    then post_closest_with dk roots s2 (fun x => negb (fdef_eqb x d)) (d_file d) n
                                    else post_closest_with dk roots s2 (fun _ => true) (d_file d) n)
                       (d_deps d) s1) ds s0) = version s0).
  { induction ds as [|d ds IH]; intros s0; cbn [fold_left]; [reflexivity|]. rewrite IH.
    generalize (d_deps d). intros deps. revert s0. induction deps as [|n deps IHn]; intros s0; cbn [fold_left]; [reflexivity|].
    rewrite IHn. destruct (String.eqb n (d_name d)); unfold post_closest_with; apply touch_version. }
  rewrite E. lia.
Qed.

(** ** what the client last received *)
Theorem published_is_latest cfg h F v :
  alookup F (ls_published (run_notifications cfg (h ++ [(F, v)])))
  = Some (publish [] [] cfg (ls_index (run_notifications cfg (h ++ [(F, v)]))) F).
Proof.
  unfold run_notifications. rewrite fold_left_app. cbn [fold_left fst snd notify ls_published ls_index].
  unfold alookup, ainsert. rewrite find_app_none.
  - cbn. now rewrite path_eqb_refl.
  - intros x Hx. unfold aremove in Hx. apply filter_In in Hx as [_ Hx]. now apply negb_true_iff in Hx.
Qed.

Lemma run_notifications_index cfg h : ls_index (run_notifications cfg h) = run_hist empty_index h.
Proof.
  unfold run_notifications, run_hist.
  assert (G : forall st, ls_index (fold_left (fun st fv => notify cfg (fst fv) (snd fv) st) h st)
                         = fold_left (fun s fv => analyze true (fst fv) (snd fv) s) h (ls_index st)).
  { induction h as [|fv h IH]; intros st; cbn [fold_left]; [reflexivity|]. now rewrite IH. }
  apply G.
Qed.

(** the undeclared-fixture part is that of a server started fresh on the latest valid
    contents, whatever the history (from C06) *)
Theorem published_undeclared_equals_fresh cfg h F v :
  f_ok v = true ->
  undeclared_of_file (ls_index (run_notifications cfg (h ++ [(F, v)]))) F
  = undeclared_of_file (run_hist (start []) (last_valid (h ++ [(F, v)]))) F.
Proof.
  intros Ok. rewrite run_notifications_index. exact (undeclared_of_last_analysed [] h F v Ok).
Qed.
