(** * Proofs/Basics: reflection lemmas for the boolean equalities and small list facts. *)
From PLS Require Import Model.Resolve.
From Coq Require Import Lia.

Lemma list_eqb_refl {A} (eqb : A -> A -> bool) :
  (forall x, eqb x x = true) -> forall l, list_eqb eqb l l = true.
Proof. intros H l; induction l as [|x l IH]; cbn; [reflexivity|]. now rewrite H, IH. Qed.

Lemma list_eqb_eq {A} (eqb : A -> A -> bool) :
  (forall x y, eqb x y = true -> x = y) -> forall l1 l2, list_eqb eqb l1 l2 = true -> l1 = l2.
Proof.
  intros H l1; induction l1 as [|x l1 IH]; intros [|y l2]; cbn; try discriminate; [reflexivity|].
  intros E; apply andb_prop in E as [E1 E2]. f_equal; [now apply H | now apply IH].
Qed.

Lemma opt_eqb_refl {A} (eqb : A -> A -> bool) :
  (forall x, eqb x x = true) -> forall o, opt_eqb eqb o o = true.
Proof. intros H [x|]; cbn; auto. Qed.

Lemma opt_eqb_eq {A} (eqb : A -> A -> bool) :
  (forall x y, eqb x y = true -> x = y) -> forall o1 o2, opt_eqb eqb o1 o2 = true -> o1 = o2.
Proof. intros H [x|] [y|]; cbn; try discriminate; auto. intros E; f_equal; auto. Qed.

Lemma path_eqb_refl p : path_eqb p p = true.
Proof. apply list_eqb_refl, String.eqb_refl. Qed.

Lemma path_eqb_eq p q : path_eqb p q = true -> p = q.
Proof. apply list_eqb_eq. intros x y; apply String.eqb_eq. Qed.

Lemma path_eqb_iff p q : path_eqb p q = true <-> p = q.
Proof. split; [apply path_eqb_eq | intros ->; apply path_eqb_refl]. Qed.

Lemma path_eqb_neq p q : path_eqb p q = false <-> p <> q.
Proof.
  split.
  - intros E H; subst. rewrite path_eqb_refl in E; discriminate.
  - intros H. destruct (path_eqb p q) eqn:E; [|reflexivity]. apply path_eqb_eq in E; contradiction.
Qed.

Lemma path_eqb_sym p q : path_eqb p q = path_eqb q p.
Proof.
  destruct (path_eqb p q) eqn:E.
  - apply path_eqb_eq in E; subst; symmetry; apply path_eqb_refl.
  - symmetry; apply path_eqb_neq. apply path_eqb_neq in E. congruence.
Qed.

Lemma fdef_eqb_refl d : fdef_eqb d d = true.
Proof.
  unfold fdef_eqb.
  rewrite String.eqb_refl, path_eqb_refl, !N.eqb_refl, !(opt_eqb_refl String.eqb String.eqb_refl),
    !Bool.eqb_reflx, (list_eqb_refl String.eqb String.eqb_refl), (opt_eqb_refl N.eqb N.eqb_refl).
  reflexivity.
Qed.

Lemma fdef_eqb_eq a b : fdef_eqb a b = true -> a = b.
Proof.
  unfold fdef_eqb; intros E.
  repeat match type of E with (_ && _ = true) => apply andb_prop in E as [E ?] end.
  destruct a, b; cbn in *.
  repeat match goal with
         | H : String.eqb _ _ = true |- _ => apply String.eqb_eq in H
         | H : path_eqb _ _ = true |- _ => apply path_eqb_eq in H
         | H : N.eqb _ _ = true |- _ => apply N.eqb_eq in H
         | H : Bool.eqb _ _ = true |- _ => apply Bool.eqb_prop in H
         | H : opt_eqb String.eqb _ _ = true |- _ => apply (opt_eqb_eq String.eqb) in H; [|intros ? ?; apply String.eqb_eq]
         | H : opt_eqb N.eqb _ _ = true |- _ => apply (opt_eqb_eq N.eqb) in H; [|intros ? ?; apply N.eqb_eq]
         | H : list_eqb String.eqb _ _ = true |- _ => apply (list_eqb_eq String.eqb) in H; [|intros ? ?; apply String.eqb_eq]
         end.
  congruence.
Qed.

Lemma fdef_eqb_iff a b : fdef_eqb a b = true <-> a = b.
Proof. split; [apply fdef_eqb_eq | intros ->; apply fdef_eqb_refl]. Qed.

Lemma memb_in {A} (eqb : A -> A -> bool) (Hr : forall x, eqb x x = true) x l :
  In x l -> memb eqb x l = true.
Proof. intros H. unfold memb. apply existsb_exists. exists x; auto. Qed.

Lemma memb_fdef_in d l : memb fdef_eqb d l = true <-> In d l.
Proof.
  split.
  - unfold memb; intros H. apply existsb_exists in H as [y [Hy E]]. apply fdef_eqb_eq in E; subst; auto.
  - apply memb_in, fdef_eqb_refl.
Qed.

Lemma mem_path_in p l : mem_path p l = true <-> In p l.
Proof.
  unfold mem_path, memb. rewrite existsb_exists. split.
  - intros [y [Hy E]]. apply path_eqb_eq in E; subst; auto.
  - intros H; exists p; split; auto using path_eqb_refl.
Qed.

Lemma mem_str_in x l : mem_str x l = true <-> In x l.
Proof.
  unfold mem_str, memb. rewrite existsb_exists. split.
  - intros [y [Hy E]]. apply String.eqb_eq in E; subst; auto.
  - intros H; exists x; split; auto using String.eqb_refl.
Qed.

(** ** max_by_key *)
Lemma max_by_key_none {A} (key : A -> N) l : max_by_key key l = None <-> l = [].
Proof.
  destruct l as [|x l]; cbn; [tauto|].
  split; [|discriminate].
  destruct (max_by_key key l) as [y|]; [destruct (key x <=? key y)|]; discriminate.
Qed.

Lemma max_by_key_in {A} (key : A -> N) l x : max_by_key key l = Some x -> In x l.
Proof.
  revert x; induction l as [|a l IH]; cbn; [discriminate|].
  intros x. destruct (max_by_key key l) as [y|].
  - destruct (key a <=? key y); intros [= <-]; auto.
  - intros [= <-]; auto.
Qed.

Lemma max_by_key_max {A} (key : A -> N) l x :
  max_by_key key l = Some x -> forall y, In y l -> key y <= key x.
Proof.
  revert x; induction l as [|a l IH]; cbn; [discriminate|].
  intros x. destruct (max_by_key key l) as [m|] eqn:E.
  - destruct (key a <=? key m) eqn:L; intros [= <-] y [<-|Hy].
    + now apply N.leb_le.
    + now apply IH.
    + lia.
    + apply N.leb_gt in L. specialize (IH m eq_refl y Hy). lia.
  - apply max_by_key_none in E; subst. intros [= <-] y [<-|[]]. lia.
Qed.

(** ** first_some *)
Lemma first_some_none {A B} (f : A -> option B) l :
  first_some f l = None <-> forall x, In x l -> f x = None.
Proof.
  induction l as [|a l IH]; cbn; [split; [intros _ x []|reflexivity]|].
  destruct (f a) eqn:E.
  - split; [discriminate|]. intros H. specialize (H a (or_introl eq_refl)). congruence.
  - rewrite IH. split; intros H x; [intros [<-|Hx]; auto|intros Hx; auto].
Qed.

Lemma first_some_some {A B} (f : A -> option B) l y :
  first_some f l = Some y -> exists x, In x l /\ f x = Some y.
Proof.
  induction l as [|a l IH]; cbn; [discriminate|].
  destruct (f a) eqn:E.
  - intros [= <-]. exists a; auto.
  - intros H. destruct (IH H) as [x [Hx Hf]]. exists x; auto.
Qed.

Lemma find_some_in {A} (p : A -> bool) l x : find p l = Some x -> In x l /\ p x = true.
Proof. apply find_some. Qed.

Lemma filter_In' {A} (p : A -> bool) x l : In x (filter p l) <-> In x l /\ p x = true.
Proof. apply filter_In. Qed.

Lemma NoDup_app_intro {A} (l1 l2 : list A) :
  NoDup l1 -> NoDup l2 -> (forall x, In x l1 -> In x l2 -> False) -> NoDup (l1 ++ l2).
Proof.
  induction l1 as [|a l1 IH]; intros H1 H2 Hd; cbn; [exact H2|].
  inversion H1 as [|? ? Hn H1']; subst. constructor.
  - intros Hin. apply in_app_or in Hin as [Hin|Hin]; [contradiction|]. apply (Hd a); [now left|exact Hin].
  - apply IH; [exact H1'|exact H2|]. intros x Hx. apply Hd. now right.
Qed.

Lemma filter_filter_same {A} (p : A -> bool) l : filter p (filter p l) = filter p l.
Proof.
  induction l as [|a l IH]; cbn; [reflexivity|]. destruct (p a) eqn:E; cbn; [rewrite E; now f_equal|exact IH].
Qed.

Lemma find_app_none {A} (p : A -> bool) l1 l2 :
  (forall x, In x l1 -> p x = false) -> find p (l1 ++ l2) = find p l2.
Proof.
  induction l1 as [|a l1 IH]; intros H; cbn; [reflexivity|].
  rewrite (H a (or_introl eq_refl)). apply IH. intros x Hx. apply H. now right.
Qed.
