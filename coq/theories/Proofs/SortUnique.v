(** * The cycle detector's traversal order, and with it which cycle is reported for a
    component and on which fixture, is a function of the SET of definitions: two indexes
    whose definition lists are permutations of each other (no two definitions sharing file,
    line and name) and which resolve dependencies alike report the same cycles in the same
    order.  The core is uniqueness of sorting under a total order. *)
From Coq Require Import Arith Lia Sorting.Sorted Permutation.
From PLS Require Import Spec.Deps Model.Diagnostics Proofs.Basics Proofs.Available Proofs.Cycles.

(** ** sorting is unique *)
Section Sort.
  Variable A : Type.
  Variable leb : A -> A -> bool.
  Hypothesis total : forall a b, leb a b = true \/ leb b a = true.
  Hypothesis trans : forall a b c, leb a b = true -> leb b c = true -> leb a c = true.

  Notation sorted := (StronglySorted (fun a b => leb a b = true)).

  Lemma insert_in x l z : In z (insert_sorted leb x l) -> z = x \/ In z l.
  Proof.
    induction l as [|y l IH]; cbn [insert_sorted]; [intros [<-|[]]; now left|].
    destruct (leb x y); [intros [<-|H]; [now left|now right]|].
    intros [<-|H]; [right; now left|]. destruct (IH H) as [->|H']; [now left|right; now right].
  Qed.

  Lemma insert_sorted_sorted x l : sorted l -> sorted (insert_sorted leb x l).
  Proof.
    induction 1 as [|y l Hs IH Hy]; cbn [insert_sorted]; [constructor; constructor|].
    destruct (leb x y) eqn:E.
    - constructor; [constructor; assumption|]. constructor; [exact E|].
      rewrite Forall_forall in *. intros z Hz. eapply trans; [exact E|now apply Hy].
    - constructor; [exact IH|]. rewrite Forall_forall in *. intros z Hz.
      destruct (insert_in x l z Hz) as [->|Hz']; [|now apply Hy].
      destruct (total x y) as [H|H]; [congruence|exact H].
  Qed.

  Lemma isort_sorted l : sorted (isort leb l).
  Proof. induction l as [|x l IH]; [constructor|]. cbn [isort fold_right]. now apply insert_sorted_sorted. Qed.

  Lemma sorted_perm_unique l1 : forall l2,
    (forall a b, In a l1 -> In b l1 -> leb a b = true -> leb b a = true -> a = b) ->
    sorted l1 -> sorted l2 -> Permutation l1 l2 -> l1 = l2.
  Proof.
    induction l1 as [|a t1 IH]; intros l2 Anti S1 S2 P.
    - apply Permutation_nil in P. now subst.
    - destruct l2 as [|b t2]; [apply Permutation_sym, Permutation_nil in P; discriminate|].
      inversion S1 as [|? ? S1' F1]; subst. inversion S2 as [|? ? S2' F2]; subst.
      rewrite Forall_forall in F1, F2.
      assert (Hab : a = b).
      { assert (Ha2 : In a (b :: t2)) by (eapply Permutation_in; [exact P|now left]).
        assert (Hb1 : In b (a :: t1)) by (eapply Permutation_in; [apply Permutation_sym; exact P|now left]).
        destruct Ha2 as [->|Ha2]; [reflexivity|]. destruct Hb1 as [->|Hb1]; [reflexivity|].
        apply Anti; [now left|now right|now apply F1|now apply F2]. }
      subst b. f_equal. apply IH; [|exact S1'|exact S2'|now apply Permutation_cons_inv in P].
      intros x y Hx Hy. apply Anti; now right.
  Qed.

  Theorem isort_perm_unique l1 l2 :
    (forall a b, In a l1 -> In b l1 -> leb a b = true -> leb b a = true -> a = b) ->
    Permutation l1 l2 -> isort leb l1 = isort leb l2.
  Proof.
    intros Anti P. apply sorted_perm_unique; [|apply isort_sorted|apply isort_sorted|].
    - intros a b Ha Hb. apply Anti; eapply Permutation_in; try eassumption; apply isort_perm.
    - eapply Permutation_trans; [apply isort_perm|]. eapply Permutation_trans; [exact P|]. apply Permutation_sym, isort_perm.
  Qed.
End Sort.

(** ** the order on strings, paths and nodes is total and transitive *)
Lemma ascii_compare_trans_lt a b c :
  Ascii.compare a b = Lt -> Ascii.compare b c = Lt -> Ascii.compare a c = Lt.
Proof. unfold Ascii.compare. rewrite !N.compare_lt_iff. lia. Qed.

Lemma ascii_compare_refl a : Ascii.compare a a = Eq.
Proof. unfold Ascii.compare. apply N.compare_refl. Qed.

Lemma string_compare_refl s : String.compare s s = Eq.
Proof. induction s as [|a s IH]; [reflexivity|]. cbn. now rewrite ascii_compare_refl. Qed.

Lemma string_compare_trans_lt : forall s1 s2 s3,
  String.compare s1 s2 = Lt -> String.compare s2 s3 = Lt -> String.compare s1 s3 = Lt.
Proof.
  induction s1 as [|a s1 IH]; intros [|b s2] [|c s3] H12 H23; cbn in *; try discriminate; try reflexivity.
  destruct (Ascii.compare a b) eqn:Eab; try discriminate.
  - apply Ascii.compare_eq_iff in Eab. subst b.
    destruct (Ascii.compare a c) eqn:Eac; try discriminate; [now apply (IH s2)|reflexivity].
  - destruct (Ascii.compare b c) eqn:Ebc; try discriminate.
    + apply Ascii.compare_eq_iff in Ebc. subst c. now rewrite Eab.
    + now rewrite (ascii_compare_trans_lt a b c Eab Ebc).
Qed.

Lemma string_leb_trans a b c : String.leb a b = true -> String.leb b c = true -> String.leb a c = true.
Proof.
  unfold String.leb. intros H1 H2.
  destruct (String.compare a b) eqn:E1; try discriminate;
    destruct (String.compare b c) eqn:E2; try discriminate.
  - apply String.compare_eq_iff in E1, E2. subst. now rewrite string_compare_refl.
  - apply String.compare_eq_iff in E1. subst. now rewrite E2.
  - apply String.compare_eq_iff in E2. subst. now rewrite E1.
  - now rewrite (string_compare_trans_lt a b c E1 E2).
Qed.

Lemma string_leb_refl a : String.leb a a = true.
Proof. unfold String.leb. now rewrite string_compare_refl. Qed.

Lemma list_leb_refl a : list_leb String.leb a a = true.
Proof. induction a as [|x a IH]; [reflexivity|]. cbn. now rewrite String.eqb_refl. Qed.

Lemma list_leb_total : forall a b, list_leb String.leb a b = true \/ list_leb String.leb b a = true.
Proof.
  induction a as [|x a IH]; intros [|y b]; cbn; auto.
  rewrite (String.eqb_sym y x). destruct (String.eqb x y); [apply IH|apply String.leb_total].
Qed.

Lemma list_leb_antisym : forall a b, list_leb String.leb a b = true -> list_leb String.leb b a = true -> a = b.
Proof.
  induction a as [|x a IH]; intros [|y b] H1 H2; cbn in *; try discriminate; [reflexivity|].
  rewrite (String.eqb_sym y x) in H2. destruct (String.eqb x y) eqn:E.
  - apply String.eqb_eq in E. subst. f_equal. now apply IH.
  - exfalso. apply String.eqb_neq in E. apply E. now apply String.leb_antisym.
Qed.

Lemma list_leb_trans : forall a b c,
  list_leb String.leb a b = true -> list_leb String.leb b c = true -> list_leb String.leb a c = true.
Proof.
  induction a as [|x a IH]; intros [|y b] [|z c] H1 H2; cbn in *; try discriminate; try reflexivity.
  destruct (String.eqb x y) eqn:Exy.
  - apply String.eqb_eq in Exy. subst y. destruct (String.eqb x z); [now apply (IH b)|exact H2].
  - destruct (String.eqb y z) eqn:Eyz.
    + apply String.eqb_eq in Eyz. subst z. now rewrite Exy.
    + destruct (String.eqb x z) eqn:Exz.
      * apply String.eqb_eq in Exz. subst z. exfalso. apply String.eqb_neq in Exy. apply Exy. now apply String.leb_antisym.
      * now apply (string_leb_trans x y z).
Qed.

Lemma path_leb_total p q : path_leb p q = true \/ path_leb q p = true.
Proof. apply list_leb_total. Qed.
Lemma path_leb_trans p q r : path_leb p q = true -> path_leb q r = true -> path_leb p r = true.
Proof. apply list_leb_trans. Qed.
Lemma path_leb_antisym p q : path_leb p q = true -> path_leb q p = true -> p = q.
Proof. intros H1 H2. pose proof (list_leb_antisym _ _ H1 H2) as E. apply (f_equal (@rev string)) in E. now rewrite !rev_involutive in E. Qed.

Lemma node_leb_total a b : node_leb a b = true \/ node_leb b a = true.
Proof.
  unfold node_leb. rewrite (path_eqb_sym (d_file b) (d_file a)).
  destruct (path_eqb (d_file a) (d_file b)); [|apply path_leb_total].
  rewrite (N.eqb_sym (d_line b) (d_line a)). destruct (d_line a =? d_line b) eqn:E; [apply String.leb_total|].
  apply N.eqb_neq in E. destruct (d_line a <? d_line b) eqn:L; [now left|right]. apply N.ltb_lt. apply N.ltb_ge in L. lia.
Qed.

Lemma node_leb_trans a b c : node_leb a b = true -> node_leb b c = true -> node_leb a c = true.
Proof.
  unfold node_leb. intros H1 H2.
  destruct (path_eqb (d_file a) (d_file b)) eqn:Eab.
  - apply path_eqb_eq in Eab. rewrite <- Eab in H2.
    destruct (path_eqb (d_file a) (d_file c)); [|exact H2].
    destruct (d_line a =? d_line b) eqn:Lab.
    + apply N.eqb_eq in Lab. rewrite <- Lab in H2.
      destruct (d_line a =? d_line c); [now apply (string_leb_trans _ (d_name b))|exact H2].
    + apply N.ltb_lt in H1. destruct (d_line b =? d_line c) eqn:Lbc.
      * apply N.eqb_eq in Lbc. rewrite <- Lbc. rewrite Lab. now apply N.ltb_lt.
      * apply N.ltb_lt in H2. destruct (d_line a =? d_line c) eqn:Lac; [apply N.eqb_eq in Lac; lia|apply N.ltb_lt; lia].
  - destruct (path_eqb (d_file b) (d_file c)) eqn:Ebc.
    + apply path_eqb_eq in Ebc. rewrite <- Ebc. now rewrite Eab.
    + destruct (path_eqb (d_file a) (d_file c)) eqn:Eac.
      * apply path_eqb_eq in Eac. rewrite <- Eac in H2. exfalso. apply path_eqb_neq in Eab. apply Eab. now apply path_leb_antisym.
      * now apply (path_leb_trans _ (d_file b)).
Qed.

Lemma node_leb_antisym_key a b : node_leb a b = true -> node_leb b a = true -> same_node a b = true.
Proof.
  unfold node_leb, same_node. rewrite (path_eqb_sym (d_file b) (d_file a)). intros H1 H2.
  destruct (path_eqb (d_file a) (d_file b)) eqn:Ef.
  - rewrite (N.eqb_sym (d_line b) (d_line a)) in H2. destruct (d_line a =? d_line b) eqn:El.
    + cbn [andb]. apply String.eqb_eq. now apply String.leb_antisym.
    + apply N.ltb_lt in H1, H2. lia.
  - exfalso. apply path_eqb_neq in Ef. apply Ef. now apply path_leb_antisym.
Qed.

(** ** the traversal order is a function of the set of definitions *)
Theorem nodes_perm s1 s2 :
  keys_unique s1 -> Permutation (defs s1) (defs s2) -> nodes s1 = nodes s2.
Proof.
  intros KU P. unfold nodes. apply isort_perm_unique; [apply node_leb_total|apply node_leb_trans| |exact P].
  intros a b Ha Hb H1 H2. apply KU; [exact Ha|exact Hb|now apply node_leb_antisym_key].
Qed.

(** ** hence the reports are the same *)
Section SameReports.
  Variable dk : disk.
  Variable roots : list path.
  Variables s1 s2 : index.
  Hypothesis Hnodes : nodes s1 = nodes s2.
  Hypothesis Hdep : forall d n, dep_target dk roots s1 d n = dep_target dk roots s2 d n.

  Lemma node_succs_same d : node_succs dk roots s1 d = node_succs dk roots s2 d.
  Proof.
    unfold node_succs. apply flat_map_ext. intros n. rewrite Hdep.
    destruct (dep_target dk roots s2 d n); [|reflexivity]. unfold node_of. now rewrite Hnodes.
  Qed.

  Lemma fold_left_ext_all {A B} (f g : A -> B -> A) l : (forall a b, f a b = g a b) -> forall a, fold_left f l a = fold_left g l a.
  Proof. intros H. induction l as [|b l IH]; intros a; cbn; [reflexivity|]. now rewrite H, IH. Qed.

  Lemma visit_same : forall fuel rec pth d st,
    visit dk roots s1 fuel rec pth d st = visit dk roots s2 fuel rec pth d st.
  Proof.
    induction fuel as [|fuel IH]; intros rec pth d st; [reflexivity|]. cbn [visit].
    rewrite node_succs_same.
    rewrite (fold_left_ext_all
               (fun st0 dep => if mem_node dep (d :: rec) then report (pth ++ [d]) dep st0
                               else if mem_node dep (visited st0) then st0 else visit dk roots s1 fuel (d :: rec) (pth ++ [d]) dep st0)
               (fun st0 dep => if mem_node dep (d :: rec) then report (pth ++ [d]) dep st0
                               else if mem_node dep (visited st0) then st0 else visit dk roots s2 fuel (d :: rec) (pth ++ [d]) dep st0)).
    - reflexivity.
    - intros a b. now rewrite IH.
  Qed.

  Theorem cycles_cold_same : cycles_cold dk roots s1 = cycles_cold dk roots s2.
  Proof.
    unfold cycles_cold. rewrite Hnodes. f_equal.
    apply fold_left_ext_all. intros st d. now rewrite visit_same.
  Qed.
End SameReports.

(** two indexes holding the same definitions in different registration orders, resolving
    dependencies alike, report the same cycles, in the same order, on the same fixtures *)
Theorem cycles_registration_order_independent dk roots s1 s2 :
  keys_unique s1 -> Permutation (defs s1) (defs s2) ->
  (forall d n, dep_target dk roots s1 d n = dep_target dk roots s2 d n) ->
  cycles_cold dk roots s1 = cycles_cold dk roots s2.
Proof. intros KU P Hd. apply cycles_cold_same; [now apply nodes_perm|exact Hd]. Qed.
