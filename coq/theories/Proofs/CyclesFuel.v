(** * The cycle detector's DFS never exhausts its fuel — on EVERY dependency graph (self
    loops, mutual dependencies, several components, any size).  The model's [visit] returns
    its state unchanged when the fuel runs out; this file makes that branch explicit
    ([visit_opt] answers [None] there) and shows it is never taken from the top-level call:
    the recursion stack holds distinct nodes, so it cannot outgrow the node list. *)
From Coq Require Import Arith Lia.
From PLS Require Import Spec.Deps Model.Diagnostics Proofs.Basics Proofs.Cycles Proofs.CyclesComplete.

Section Fuel.
  Variable dk : disk.
  Variable roots : list path.
  Variable s : index.

  Notation node_succs := (node_succs dk roots s).
  Notation visit := (visit dk roots s).

  Fixpoint visit_opt (fuel : nat) (rec pth : list fdef) (d : fdef) (st : dfs_state) : option dfs_state :=
    match fuel with
    | O => None
    | S fuel' =>
        let rec' := d :: rec in
        let pth' := pth ++ [d] in
        match fold_left (fun (acc : option dfs_state) dep =>
                           match acc with
                           | None => None
                           | Some st =>
                               if mem_node dep rec' then Some (report pth' dep st)
                               else if mem_node dep (visited st) then Some st
                               else visit_opt fuel' rec' pth' dep st
                           end) (node_succs d) (Some st) with
        | Some st' => Some (mk_dfs (d :: visited st') (seen_keys st') (found st'))
        | None => None
        end
    end.

  Lemma succ_in_nodes d y : In y (node_succs d) -> In y (nodes s).
  Proof.
    unfold Diagnostics.node_succs. intros H. apply in_flat_map in H as [n [_ H]].
    destruct (dep_target dk roots s d n) as [t|]; [|destruct H].
    unfold node_of in H. destruct (find (same_node t) (nodes s)) as [x|] eqn:E; [|destruct H].
    destruct H as [<-|[]]. now apply find_some in E.
  Qed.

  Lemma visit_opt_total : forall fuel rec pth d st,
    (length (nodes s) < fuel + length rec)%nat ->
    NoDup rec -> (forall x, In x rec -> In x (nodes s)) -> ~ In d rec -> In d (nodes s) ->
    visit_opt fuel rec pth d st = Some (visit fuel rec pth d st).
  Proof.
    induction fuel as [|fuel IH]; intros rec pth d st Hfuel Hnd Hsub Hd Hdn.
    - exfalso. cbn in Hfuel.
      assert (Hincl : incl (d :: rec) (nodes s)) by (intros x [<-|Hx]; [exact Hdn|now apply Hsub]).
      assert (Hnd' : NoDup (d :: rec)) by (constructor; assumption).
      pose proof (NoDup_incl_length Hnd' Hincl) as L. cbn [length] in L. lia.
    - cbn [visit_opt Diagnostics.visit].
      assert (G : forall succs st0, (forall y, In y succs -> In y (nodes s)) ->
                fold_left (fun (acc : option dfs_state) dep =>
                             match acc with
                             | None => None
                             | Some st1 =>
                                 if mem_node dep (d :: rec) then Some (report (pth ++ [d]) dep st1)
                                 else if mem_node dep (visited st1) then Some st1
                                 else visit_opt fuel (d :: rec) (pth ++ [d]) dep st1
                             end) succs (Some st0)
                = Some (fold_left (fun st1 dep =>
                                     if mem_node dep (d :: rec) then report (pth ++ [d]) dep st1
                                     else if mem_node dep (visited st1) then st1
                                     else visit fuel (d :: rec) (pth ++ [d]) dep st1) succs st0)).
      { induction succs as [|y succs IHs]; intros st0 Hin; cbn [fold_left]; [reflexivity|].
        assert (Hin' : forall z, In z succs -> In z (nodes s)) by (intros z Hz; apply Hin; now right).
        destruct (mem_node y (d :: rec)) eqn:Er; [now apply IHs|].
        destruct (mem_node y (visited st0)); [now apply IHs|].
        rewrite (IH (d :: rec) (pth ++ [d]) y st0); [now apply IHs| | | | |].
        - cbn [length]. lia.
        - constructor; assumption.
        - intros x [<-|Hx]; [exact Hdn|now apply Hsub].
        - intros X. apply mem_node_in in X. congruence.
        - apply Hin. now left. }
      rewrite (G (node_succs d) st (fun y Hy => succ_in_nodes d y Hy)). reflexivity.
  Qed.

  Definition cycles_cold_opt : option (list cycle) :=
    match fold_left (fun (acc : option dfs_state) d =>
                       match acc with
                       | None => None
                       | Some st => if mem_node d (visited st) then Some st
                                    else visit_opt (S (List.length (nodes s))) [] [] d st
                       end) (nodes s) (Some (mk_dfs [] [] [])) with
    | Some st => Some (found st)
    | None => None
    end.

  Theorem cycles_never_out_of_fuel : cycles_cold_opt = Some (cycles_cold dk roots s).
  Proof.
    unfold cycles_cold_opt, cycles_cold.
    assert (G : forall l st0, (forall y, In y l -> In y (nodes s)) ->
              fold_left (fun (acc : option dfs_state) d =>
                           match acc with
                           | None => None
                           | Some st => if mem_node d (visited st) then Some st
                                        else visit_opt (S (List.length (nodes s))) [] [] d st
                           end) l (Some st0)
              = Some (fold_left (fun st d => if mem_node d (visited st) then st
                                             else visit (S (List.length (nodes s))) [] [] d st) l st0)).
    { induction l as [|y l IHl]; intros st0 Hin; cbn [fold_left]; [reflexivity|].
      assert (Hin' : forall z, In z l -> In z (nodes s)) by (intros z Hz; apply Hin; now right).
      destruct (mem_node y (visited st0)); [now apply IHl|].
      rewrite (visit_opt_total (S (length (nodes s))) [] [] y st0); [now apply IHl| | | | |].
      - cbn [length]. lia.
      - constructor.
      - intros x [].
      - intros [].
      - apply Hin. now left. }
    now rewrite (G (nodes s) (mk_dfs [] [] []) (fun y Hy => Hy)).
  Qed.
End Fuel.
