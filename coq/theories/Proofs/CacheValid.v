(** * Proofs/CacheValid: the memo caches are invisible (C07, first sentence).
    Structure of the argument:
      (1) every memo entry carries a version <= the current one ([bounded]), in every
          reachable state;
      (2) every state-changing operation (any analysis — clean or fresh, parsable or
          not —, a close, an effective eviction) strictly increases the version, so
          afterwards NO entry is current ([stale_after_*]);
      (3) in a state without current entries every query computes exactly what it
          computes with all memos cleared ([*_cold]);
      (4) a memo hit returns the value stored by the query that missed, in the same
          state ([available_hit_same]). *)
From PLS Require Import Check.C07 Proofs.Basics.
From Coq Require Import Lia.

Definition cold (s : index) : index := set_cyc_cache (set_imp_cache (set_av_cache s []) []) None.

Definition bounded (s : index) : Prop :=
  (forall F v l, In (F, (v, l)) (av_cache s) -> v <= version s) /\
  (forall F h v l, In (F, (h, v, l)) (imp_cache s) -> v <= version s).

Definition no_current (s : index) : Prop :=
  (forall F v l, In (F, (v, l)) (av_cache s) -> v <> version s) /\
  (forall F h v l, In (F, (h, v, l)) (imp_cache s) -> v <> version s).

Lemma bounded_bump s : bounded s -> no_current (set_version s (version s + 1)).
Proof.
  intros [Ha Hi]. split; cbn.
  - intros F v l H. specialize (Ha F v l H). lia.
  - intros F h v l H. specialize (Hi F h v l H). lia.
Qed.

Lemma alookup_in {V} k (m : list (path * V)) v : alookup k m = Some v -> exists k', k' = k /\ In (k', v) m.
Proof.
  unfold alookup. destruct (find (fun kv => path_eqb (fst kv) k) m) as [[k' v']|] eqn:E; [|discriminate].
  intros [= <-]. apply find_some in E as [Hin Hk]. cbn in Hk. apply path_eqb_eq in Hk. exists k'. split; auto.
Qed.

Section Cold.
  Variable dk : disk.
  Variable roots : list path.

  Lemma imp_hit_none s file c : no_current s -> imp_hit s file c = None.
  Proof.
    intros [_ Hi]. unfold imp_hit. destruct (alookup file (imp_cache s)) as [[[h v] names]|] eqn:E; [|reflexivity].
    apply alookup_in in E as [k' [_ Hin]]. specialize (Hi k' h v names Hin).
    destruct (v =? version s) eqn:Ev; [apply N.eqb_eq in Ev; contradiction|]. now rewrite andb_false_r.
  Qed.

  Lemma av_hit_none s F : no_current s -> av_hit s F = None.
  Proof.
    intros [Ha _]. unfold av_hit. destruct (alookup F (av_cache s)) as [[v l]|] eqn:E; [|reflexivity].
    apply alookup_in in E as [k' [_ Hin]]. specialize (Ha k' v l Hin).
    destruct (v =? version s) eqn:Ev; [apply N.eqb_eq in Ev; contradiction|reflexivity].
  Qed.

  Lemma fold_left_ext {A B} (f g : A -> B -> A) l a : (forall a b, f a b = g a b) -> fold_left f l a = fold_left g l a.
  Proof. intros H. revert a. induction l as [|b l IH]; intros a; cbn; [reflexivity|]. now rewrite H, IH. Qed.

  Lemma find_module_file_cold s parts base :
    find_module_file dk (cold s) parts base = find_module_file dk s parts base.
  Proof.
    revert base. induction parts as [|p parts IH]; intros base; [reflexivity|].
    destruct parts as [|p2 parts]; [reflexivity|].
    cbn [find_module_file]. destruct (disk_dir dk (p :: base)); [apply IH|reflexivity].
  Qed.

  Lemma first_some_ext {A B} (f g : A -> option B) l : (forall x, f x = g x) -> first_some f l = first_some g l.
  Proof. intros H. induction l as [|a l IH]; cbn; [reflexivity|]. now rewrite H, IH. Qed.

  Lemma resolve_edge_cold s file e : resolve_edge dk (cold s) roots file e = resolve_edge dk s roots file e.
  Proof.
    unfold resolve_edge. destruct file as [|f base]; [reflexivity|].
    destruct (0 <? e_level e).
    - unfold resolve_relative. destruct (up _ base) as [d|]; [|reflexivity].
      destruct (e_mod e); [reflexivity|apply find_module_file_cold].
    - destruct (e_mod e) as [|m ms]; [reflexivity|]. unfold resolve_absolute.
      rewrite (first_some_ext _ (find_module_file dk s (m :: ms))) by (intros; apply find_module_file_cold).
      rewrite (first_some_ext (find_module_file dk (cold s) (m :: ms)) (find_module_file dk s (m :: ms)) roots)
        by (intros; apply find_module_file_cold).
      reflexivity.
  Qed.

  Lemma imported_fuel_cold s : no_current s ->
    forall fuel file vis, imported_fuel dk roots s fuel file vis = imported_fuel dk roots (cold s) fuel file vis.
  Proof.
    intros Hn. induction fuel as [|fuel IH]; intros file vis; [reflexivity|]. cbn [imported_fuel].
    destruct (mem_path file vis); [reflexivity|].
    change (content dk (cold s) file) with (content dk s file).
    destruct (content dk s file) as [c|]; [|reflexivity].
    rewrite (imp_hit_none s file c Hn).
    assert (Hc : imp_hit (cold s) file c = None) by reflexivity. rewrite Hc.
    destruct (negb (c_ok c)); [reflexivity|].
    apply fold_left_ext. intros [[names vis']|] e; [|reflexivity].
    rewrite resolve_edge_cold.
    destruct (resolve_edge dk s roots file e) as [tgt|]; [|reflexivity].
    destruct (e_kind e) as [|ns]; [now rewrite IH|reflexivity].
  Qed.

  Theorem imported_cold s file : no_current s -> imported dk roots s file = imported dk roots (cold s) file.
  Proof. intros Hn. unfold imported. change (enough_fuel dk (cold s)) with (enough_fuel dk s). now rewrite imported_fuel_cold. Qed.

  Lemma is_imported_cold s n file : no_current s -> is_imported dk roots s n file = is_imported dk roots (cold s) n file.
  Proof. intros Hn. unfold is_imported. now rewrite imported_cold. Qed.

  Theorem closest_with_cold s flt F n : no_current s ->
    closest_with dk roots s flt F n = closest_with dk roots (cold s) flt F n.
  Proof.
    intros Hn. unfold closest_with. change (defs_named (cold s) n) with (defs_named s n).
    destruct (defs_named s n) as [|d0 l0] eqn:Edn; [reflexivity|]. rewrite <- Edn.
    destruct (last_binding flt (defs_named s n) F); [reflexivity|].
    destruct F as [|f dir]; [reflexivity|].
    assert (E : forall dirs, first_some (conftest_step dk roots s flt (defs_named s n) n) dirs
                             = first_some (conftest_step dk roots (cold s) flt (defs_named s n) n) dirs).
    { induction dirs as [|d dirs IHd]; [cbn [first_some]; exact eq_refl|]. cbn [first_some].
      assert (Es : conftest_step dk roots s flt (defs_named s n) n d = conftest_step dk roots (cold s) flt (defs_named s n) n d).
      { unfold conftest_step. change (in_cache (cold s) (conftest_py :: d)) with (in_cache s (conftest_py :: d)).
        now rewrite (is_imported_cold s n _ Hn). }
      rewrite Es, IHd. reflexivity. }
    rewrite E. reflexivity.
  Qed.

  Theorem available_cold_cold s F : no_current s ->
    available dk roots s F = available_cold dk roots (cold s) F.
  Proof.
    intros Hn. unfold available. rewrite (av_hit_none s F Hn). unfold available_cold.
    change (add_last (cold s)) with (add_last s). change (add_first (cold s)) with (add_first s).
    destruct F as [|f dir]; [reflexivity|].
    (* congruence steps are given explicitly: a bare [f_equal] spends minutes here *)
    match goal with |- isort ?le ?a = isort ?le ?b => apply (f_equal (isort le)) end.
    match goal with |- add_first ?s0 ?p ?a = add_first ?s0 ?p ?b => apply (f_equal (add_first s0 p)) end.
    match goal with |- add_first ?s0 ?p ?a = add_first ?s0 ?p ?b => apply (f_equal (add_first s0 p)) end.
    apply fold_left_ext. intros acc d. cbn zeta. unfold add_imported.
    change (in_cache (cold s) (conftest_py :: d)) with (in_cache s (conftest_py :: d)).
    destruct (in_cache s (conftest_py :: d)); [|reflexivity].
    rewrite (imported_cold s _ Hn). reflexivity.
  Qed.

  (** a hit returns what the missing query stored *)
  Theorem available_hit_same s F : available dk roots (post_available dk roots s F) F = available dk roots s F.
  Proof.
    unfold post_available, available. destruct (av_hit s F) as [l|] eqn:E; [now rewrite E|].
    unfold av_hit at 1. cbn [av_cache set_av_cache version].
    assert (Hv1 : forall s0 x, version (imp_store dk roots s0 x) = version s0).
    { intros s0 x. unfold imp_store. destruct (content dk s0 x) as [c|]; [|reflexivity]. destruct (imp_hit s0 x c); reflexivity. }
    assert (Hv : forall files s0, version (touch dk roots s0 files) = version s0).
    { unfold touch. induction files as [|x files IH]; intros s0; cbn [fold_left]; [reflexivity|]. now rewrite IH, Hv1. }
    assert (L : forall (m : list (path * (N * list fdef))) v, alookup F (ainsert F v m) = Some v).
    { intros m v. unfold ainsert, alookup. rewrite find_app_none.
      - cbn. now rewrite path_eqb_refl.
      - unfold aremove. intros x Hx. apply filter_In in Hx as [_ Hx]. now apply negb_true_iff in Hx. }
    rewrite L. destruct F as [|f dir]; cbn [version]; [now rewrite N.eqb_refl|].
    rewrite Hv, N.eqb_refl. reflexivity.
  Qed.
End Cold.

(** ** (1) and (2): boundedness is an invariant; state-changing operations leave no
    current entry *)
Lemma analyze_version_grows c F v s : version s < version (analyze c F v s).
Proof.
  unfold analyze. destruct (negb (f_ok v)); [cbn; lia|].
  assert (G : forall items s0, version s0 <= version (fold_left (visit_item F) items s0)).
  { induction items as [|it items IH]; intros s0; cbn; [lia|]. etransitivity; [|apply IH].
    destruct it as [u|l|b]; cbn; try lia. unfold record_def. cbn. destruct (existsb _ _); cbn; lia. }
  eapply N.lt_le_trans; [|apply G]. destruct c; cbn; lia.
Qed.

Lemma analyze_caches c F v s : av_cache (analyze c F v s) = av_cache s /\ imp_cache (analyze c F v s) = imp_cache s.
Proof.
  unfold analyze. destruct (negb (f_ok v)); [split; reflexivity|].
  assert (G : forall items s0, av_cache (fold_left (visit_item F) items s0) = av_cache s0 /\
                               imp_cache (fold_left (visit_item F) items s0) = imp_cache s0).
  { induction items as [|it items IH]; intros s0; cbn; [split; reflexivity|].
    destruct (IH (visit_item F s0 it)) as [A B]. rewrite A, B.
    destruct it as [u|l|b]; cbn; try (split; reflexivity). unfold record_def. cbn. destruct (existsb _ _); split; reflexivity. }
  match goal with |- av_cache (fold_left _ _ ?x) = _ /\ _ => destruct (G (f_items v) x) as [A B] end.
  rewrite A, B. destruct c; split; reflexivity.
Qed.

Theorem stale_after_analyze c F v s : bounded s -> no_current (analyze c F v s) /\ bounded (analyze c F v s).
Proof.
  intros [Ha Hi]. pose proof (analyze_version_grows c F v s) as Hg. destruct (analyze_caches c F v s) as [Ea Ei].
  split; split; rewrite ?Ea, ?Ei.
  - intros F0 v0 l H. specialize (Ha F0 v0 l H). lia.
  - intros F0 h v0 l H. specialize (Hi F0 h v0 l H). lia.
  - intros F0 v0 l H. specialize (Ha F0 v0 l H). lia.
  - intros F0 h v0 l H. specialize (Hi F0 h v0 l H). lia.
Qed.

Theorem stale_after_close F s : bounded s -> no_current (close F s) /\ bounded (close F s).
Proof.
  intros [Ha Hi]. unfold close. split; split; cbn.
  - intros F0 v0 l H. unfold aremove in H. apply filter_In in H as [H _]. specialize (Ha F0 v0 l H). lia.
  - intros F0 h v0 l H. unfold aremove in H. apply filter_In in H as [H _]. specialize (Hi F0 h v0 l H). lia.
  - intros F0 v0 l H. unfold aremove in H. apply filter_In in H as [H _]. specialize (Ha F0 v0 l H). lia.
  - intros F0 h v0 l H. unfold aremove in H. apply filter_In in H as [H _]. specialize (Hi F0 h v0 l H). lia.
Qed.

(** queries keep boundedness: whatever they store carries the current version *)
Section Queries.
  Variable dk : disk.
  Variable roots : list path.

  Lemma in_ainsert {V} k (v : V) m k' v' : In (k', v') (ainsert k v m) -> In (k', v') m \/ (k' = k /\ v' = v).
  Proof.
    unfold ainsert. intros H. apply in_app_or in H as [H|[H|[]]].
    - left. unfold aremove in H. apply filter_In in H. tauto.
    - right. injection H as <- <-. auto.
  Qed.

  Lemma imp_store_bounded s x : bounded s -> bounded (imp_store dk roots s x).
  Proof.
    intros [Ha Hi]. unfold imp_store. destruct (content dk s x) as [c|]; [|split; assumption].
    destruct (imp_hit s x c); [split; assumption|]. split; cbn.
    - exact Ha.
    - intros F h v l H. apply in_ainsert in H as [H|[_ E]]; [exact (Hi F h v l H)|]. injection E as _ <- _. lia.
  Qed.

  Lemma touch_bounded files s : bounded s -> bounded (touch dk roots s files).
  Proof. unfold touch. revert s. induction files as [|x files IH]; intros s H; cbn; [exact H|]. apply IH, imp_store_bounded, H. Qed.

  Lemma touch_version files s : version (touch dk roots s files) = version s.
  Proof.
    unfold touch. revert s. induction files as [|x files IH]; intros s; cbn [fold_left]; [reflexivity|]. rewrite IH.
    unfold imp_store. destruct (content dk s x) as [c|]; [|reflexivity]. destruct (imp_hit s x c); reflexivity.
  Qed.

  Lemma post_available_bounded s F : bounded s -> bounded (post_available dk roots s F).
  Proof.
    intros H. unfold post_available. destruct (av_hit s F); [exact H|].
    set (s1 := match F with [] => s | _ :: dir => touch dk roots s (filter (in_cache s) (map (fun d => conftest_py :: d) (ancestors dir))) end).
    assert (B1 : bounded s1) by (unfold s1; destruct F; [exact H|now apply touch_bounded]).
    assert (V1 : version s1 = version s) by (unfold s1; destruct F; [reflexivity|apply touch_version]).
    destruct B1 as [Ha Hi]. split; cbn.
    - intros F0 v l Hin. apply in_ainsert in Hin as [Hin|[_ E]]; [exact (Ha F0 v l Hin)|].
      injection E as E1 _. subst v. rewrite V1. lia.
    - intros F0 h v l Hin. exact (Hi F0 h v l Hin).
  Qed.
End Queries.
