(** * Proofs for C17 (warnings): what is flagged is sound; the scan visits exactly the
    covered positions; an available fixture is a visible one. *)
From Coq Require Import Arith Lia.
From PLS Require Import Spec.Undeclared Proofs.Basics.

(** ** soundness of a flag: by the decision [flagged] takes at each visited Name *)
Theorem flag_sound s F b x :
  In x (filter (flagged s F b) (bd_names b)) ->
  mem_str (b_name x) (bd_declared b) = false
  /\ local_in_scope s F b (b_name x) (b_line x) = false
  /\ is_available s F (b_name x) = true.
Proof.
  intros H. apply filter_In in H as [_ H]. unfold flagged in H.
  apply andb_prop in H as [H H3]. apply andb_prop in H as [H1 H2].
  apply negb_true_iff in H1, H2. auto.
Qed.

(** a module-level / imported name, and a local bound on an earlier line, are in scope *)
Lemma module_name_in_scope s F b n line mods :
  alookup F (modnames s) = Some mods -> mem_str n mods = true -> 0 < line ->
  local_in_scope s F b n line = true.
Proof. intros H1 H2 H3. unfold local_in_scope. rewrite H1, H2. now apply N.ltb_lt. Qed.
Lemma earlier_local_in_scope s F b n line l :
  (match alookup F (modnames s) with Some m => mem_str n m | None => false end) = false ->
  lookup_str n (bd_locals b) = Some l -> l < line ->
  local_in_scope s F b n line = true.
Proof.
  intros H1 H2 H3. unfold local_in_scope.
  destruct (alookup F (modnames s)).
  - rewrite H1, H2. now apply N.ltb_lt.
  - cbn. rewrite H2. now apply N.ltb_lt.
Qed.

(** ** an available fixture is a visible one (so no warning names an invisible fixture) *)
Section Visible.
  Variable dk : disk.
  Variable roots : list path.
  Variable s : index.

  Lemma own_last_some m n d : In d (defs_in s m n) -> exists l, own_last s m n = Some l /\ In l (defs_in s m n).
  Proof.
    intros H. unfold own_last. destruct (max_by_key d_line (defs_in s m n)) as [l|] eqn:E.
    - exists l. split; [reflexivity|]. eapply max_by_key_in; eauto.
    - apply max_by_key_none in E. rewrite E in H. contradiction.
  Qed.

  Theorem available_implies_visible F n :
    (forall d, In d (defs s) -> d_file d <> conftest_py :: F) ->
    is_available s F n = true ->
    exists d, In d (defs_named s n) /\ visible dk roots s F n d = true.
  Proof.
    intros Hdir H. unfold is_available in H. apply existsb_exists in H as [d [Hd Ha]].
    unfold available_def in Ha.
    assert (Hdefs : In d (defs s)) by (unfold defs_named in Hd; apply filter_In in Hd; tauto).
    apply orb_prop in Ha as [Ha|Ha]; [apply orb_prop in Ha as [Ha|Ha]; [apply orb_prop in Ha as [Ha|Ha]|]|].
    - (* same file *)
      apply path_eqb_eq in Ha.
      assert (Hin : In d (defs_in s F n)).
      { unfold defs_in. apply filter_In. split; [exact Hd|]. rewrite Ha. apply path_eqb_refl. }
      destruct (own_last_some F n d Hin) as [l [Hl Hlin]].
      exists l. split; [unfold defs_in in Hlin; apply filter_In in Hlin; tauto|].
      unfold visible, providers. cbn [existsb]. unfold same_file_class. rewrite Hl, fdef_eqb_refl. reflexivity.
    - (* a conftest.py in an ancestor directory *)
      apply andb_prop in Ha as [Hc Hs].
      destruct (d_file d) as [|x dir] eqn:Ef; [discriminate|].
      cbn [is_conftest] in Hc. apply String.eqb_eq in Hc. subst x. cbn [tl] in Hs.
      unfold starts_with in Hs. apply mem_path_in in Hs.
      assert (Hanc : In dir (ancestors (tl F))).
      { destruct F as [|f fd]; cbn [ancestors tl] in *.
        - destruct Hs as [<-|[]]. exfalso. apply (Hdir d Hdefs). exact Ef.
        - destruct Hs as [<-|Hs]; [exfalso; apply (Hdir d Hdefs); exact Ef|exact Hs]. }
      assert (Hin : In d (defs_in s (conftest_py :: dir) n)).
      { unfold defs_in. apply filter_In. split; [exact Hd|]. rewrite Ef. apply path_eqb_refl. }
      destruct (own_last_some (conftest_py :: dir) n d Hin) as [l [Hl Hlin]].
      exists l. split; [unfold defs_in in Hlin; apply filter_In in Hlin; tauto|].
      unfold visible, providers. cbn [existsb]. apply orb_true_iff. left. apply orb_true_iff. right.
      rewrite existsb_app. apply orb_true_iff. left. apply existsb_exists.
      exists (fun d0 => conftest_class dk roots s dir n d0). split.
      + apply in_map_iff. exists dir. auto.
      + unfold conftest_class, same_file_class. rewrite Hl, fdef_eqb_refl. reflexivity.
    - (* third-party *)
      exists d. split; [exact Hd|]. unfold visible, providers. cbn [existsb]. apply orb_true_iff. left.
      apply orb_true_iff. right. rewrite existsb_app. apply orb_true_iff. right. cbn. unfold third_class. rewrite Ha.
      now rewrite orb_true_r.
    - (* workspace plugin *)
      exists d. split; [exact Hd|]. unfold visible, providers. cbn [existsb]. apply orb_true_iff. left.
      apply orb_true_iff. right. rewrite existsb_app. apply orb_true_iff. right. cbn. unfold plugin_class, third_class.
      rewrite Ha. destruct (d_third d); reflexivity.
  Qed.
End Visible.

(** ** the scan visits exactly the covered positions *)
Lemma flat_map_map' {A B C} (f : A -> B) (g : B -> list C) l : flat_map g (map f l) = flat_map (fun x => g (f x)) l.
Proof. induction l as [|x l IH]; cbn; [reflexivity|]. now rewrite IH. Qed.

Lemma sum_ge l x : In x l -> (expr_size x <= fold_right (fun y a => expr_size y + a) 0 l)%nat.
Proof. induction l as [|y l IH]; [contradiction|]. intros [->|H]; cbn [fold_right]; [lia|]. specialize (IH H). lia. Qed.

(** the list cases recurse through an inner fixpoint over the list (nested inductive) *)
Ltac list_case cov_is_names fuel l :=
  let H := fresh "Hl" in
  assert (H : (fold_right (fun y a => (expr_size y + a)%nat) 0%nat l <= fuel)%nat) by lia;
  clear - H cov_is_names;
  revert l H;
  let go := fresh "go" in
  fix go 1;
  let x := fresh "x" in let r := fresh "r" in
  intros [|x r] H; cbn [flat_map]; [reflexivity|];
  cbn [fold_right] in H; rewrite (cov_is_names x fuel) by lia; f_equal; apply go; lia.

Fixpoint cov_is_names (e : expr) : forall fuel, (expr_size e <= fuel)%nat -> cov_expr fuel e = names_expr true e.
Proof.
  intros fuel Hf. destruct fuel as [|fuel]; [destruct e; cbn in Hf; lia|].
  destruct e; cbn [cov_expr names_expr sub_exprs]; cbn [expr_size] in Hf; apply le_S_n in Hf; try reflexivity.
  - (* attribute *) cbn [flat_map]. rewrite app_nil_r. apply cov_is_names. lia.
  - (* call *)
    cbn [flat_map]. rewrite flat_map_app, flat_map_map'.
    rewrite (cov_is_names e fuel) by lia. f_equal. f_equal.
    + list_case cov_is_names fuel args.
    + assert (Hk : (fold_right (fun kv a => match kv with (_, x) => expr_size x + a end) 0 kws <= fuel)%nat) by lia.
      clear Hf. revert kws Hk. fix go 1. intros [|[k v] r] Hk; cbn [flat_map]; [reflexivity|]. cbn [fold_right] in Hk.
      cbn [snd]. rewrite (cov_is_names v fuel) by lia. f_equal. apply go. lia.
  - (* list *) list_case cov_is_names fuel elts.
  - (* tuple *) list_case cov_is_names fuel elts.
  - (* dict *)
    rewrite flat_map_app. f_equal.
    + assert (Hk : (fold_right (fun k a => match k with Some x => expr_size x + a | None => a end) 0 keys <= fuel)%nat) by lia.
      clear Hf. revert keys Hk. fix go 1. intros [|[k|] r] Hk; cbn [flat_map opt_list app]; [reflexivity| |].
      * cbn [fold_right] in Hk. rewrite (cov_is_names k fuel) by lia. f_equal. apply go. lia.
      * cbn [fold_right] in Hk. apply go. exact Hk.
    + list_case cov_is_names fuel values.
  - (* subscript *) cbn [flat_map]. rewrite app_nil_r. rewrite (cov_is_names e1 fuel), (cov_is_names e2 fuel) by lia. reflexivity.
  - (* binop *) cbn [flat_map]. rewrite app_nil_r. rewrite (cov_is_names e1 fuel), (cov_is_names e2 fuel) by lia. reflexivity.
  - (* unary *) cbn [flat_map]. rewrite app_nil_r. apply cov_is_names. lia.
  - (* boolop *) list_case cov_is_names fuel values.
  - (* set *) list_case cov_is_names fuel elts.
  - (* compare *) cbn [flat_map]. rewrite (cov_is_names e fuel) by lia. f_equal.
    list_case cov_is_names fuel comparators.
  - (* await *) cbn [flat_map]. rewrite app_nil_r. apply cov_is_names. lia.
Qed.

Theorem scan_visits_covered_expr e : covered_in e = names_expr true e.
Proof. unfold covered_in. now apply cov_is_names. Qed.

Lemma names_opt_cov o : flat_map covered_in (opt_list o) = names_opt true o.
Proof. destruct o; cbn; [rewrite app_nil_r; apply scan_visits_covered_expr|reflexivity]. Qed.

Fixpoint scan_visits_covered_stmt (st : stmt) : cov_stmt st = names_stmt true st.
Proof.
  destruct st; cbn [cov_stmt names_stmt read_exprs flat_map]; rewrite ?app_nil_r; try reflexivity.
  - (* assign *) apply scan_visits_covered_expr.
  - (* annassign *) apply names_opt_cov.
  - (* augassign *) apply scan_visits_covered_expr.
  - (* expr *) apply scan_visits_covered_expr.
  - (* return *) apply names_opt_cov.
  - (* if *) rewrite scan_visits_covered_expr. f_equal. f_equal.
    + revert body. fix go 1. intros [|x r]; cbn [flat_map]; [reflexivity|]. now rewrite (scan_visits_covered_stmt x), (go r).
    + revert orelse. fix go 1. intros [|x r]; cbn [flat_map]; [reflexivity|]. now rewrite (scan_visits_covered_stmt x), (go r).
  - (* while *) rewrite scan_visits_covered_expr. f_equal. f_equal.
    + revert body. fix go 1. intros [|x r]; cbn [flat_map]; [reflexivity|]. now rewrite (scan_visits_covered_stmt x), (go r).
    + revert orelse. fix go 1. intros [|x r]; cbn [flat_map]; [reflexivity|]. now rewrite (scan_visits_covered_stmt x), (go r).
  - (* for *) rewrite scan_visits_covered_expr. f_equal. f_equal.
    + revert body. fix go 1. intros [|x r]; cbn [flat_map]; [reflexivity|]. now rewrite (scan_visits_covered_stmt x), (go r).
    + revert orelse. fix go 1. intros [|x r]; cbn [flat_map]; [reflexivity|]. now rewrite (scan_visits_covered_stmt x), (go r).
  - (* with *) f_equal.
    + induction items as [|[c v] r IH]; cbn [flat_map map fst]; [reflexivity|]. now rewrite scan_visits_covered_expr, IH.
    + revert body. fix go 1. intros [|x r]; cbn [flat_map]; [reflexivity|]. now rewrite (scan_visits_covered_stmt x), (go r).
  - (* try *) rewrite app_nil_l. f_equal; [|f_equal; [|f_equal]].
    + revert body. fix go 1. intros [|x r]; cbn [flat_map]; [reflexivity|]. now rewrite (scan_visits_covered_stmt x), (go r).
    + revert handlers. fix goh 1. intros [|h hs]; cbn [flat_map]; [reflexivity|]. rewrite (goh hs). f_equal.
      revert h. fix go 1. intros [|x r]; cbn [flat_map]; [reflexivity|]. now rewrite (scan_visits_covered_stmt x), (go r).
    + revert orelse. fix go 1. intros [|x r]; cbn [flat_map]; [reflexivity|]. now rewrite (scan_visits_covered_stmt x), (go r).
    + revert finalbody. fix go 1. intros [|x r]; cbn [flat_map]; [reflexivity|]. now rewrite (scan_visits_covered_stmt x), (go r).
  - (* assert *) rewrite scan_visits_covered_expr. f_equal. apply names_opt_cov.
Qed.

(** what the repair changed: the old scan missed covered positions *)
Lemma old_scan_refuted :
  covered_in (ECall (EName "f" 3 4 5) [] [(Some "k", EName "db" 3 8 10)]) = [mk_bname "f" 3 4 5; mk_bname "db" 3 8 10]
  /\ names_expr false (ECall (EName "f" 3 4 5) [] [(Some "k", EName "db" 3 8 10)]) = [mk_bname "f" 3 4 5].
Proof. split; vm_compute; reflexivity. Qed.

(** ** completeness of the decision, and what the scan hands to it *)
Theorem flag_complete s F b x :
  In x (bd_names b) ->
  mem_str (b_name x) (bd_declared b) = false ->
  local_in_scope s F b (b_name x) (b_line x) = false ->
  is_available s F (b_name x) = true ->
  In x (filter (flagged s F b) (bd_names b)).
Proof.
  intros Hin H1 H2 H3. apply filter_In. split; [exact Hin|]. unfold flagged. now rewrite H1, H2, H3.
Qed.

Theorem body_names_are_covered body declared fn line :
  match body_item body declared fn line with
  | IBody b => bd_names b = flat_map cov_stmt body /\ bd_declared b = declared
  | _ => False
  end.
Proof.
  cbn. split; [|reflexivity]. induction body as [|x r IH]; cbn [flat_map]; [reflexivity|].
  now rewrite <- scan_visits_covered_stmt, IH.
Qed.

(** ** locals: every entry the collector keeps is a binding the function really contains *)
Lemma bind_in names line : forall acc kv,
  In kv (bind names line acc) -> In kv acc \/ In kv (map (fun n => (n, line)) names).
Proof.
  unfold bind. induction names as [|n names IH]; intros acc kv H; [now left|]. cbn [fold_left] in H.
  apply IH in H as [H|H]; [|right; now right].
  destruct (existsb _ acc); [now left|]. apply in_app_iff in H as [H|[<-|[]]]; [now left|]. right. now left.
Qed.

Definition block_fold (b : list stmt) (acc : list (string * N)) := fold_left (fun a s => locals_stmt bind true s a) b acc.

Ltac blk_sound locals_sound b :=
  let go := fresh "go" in
  revert b; fix go 1; intros [|s r] acc kv H; [now left|];
  unfold block_fold in *; cbn [fold_left flat_map] in *;
  apply go in H as [H|H]; [apply locals_sound in H as [H|H]; [now left|right; apply in_or_app; now left]
                          |right; apply in_or_app; now right].

Fixpoint locals_sound (st : stmt) : forall acc kv,
  In kv (locals_stmt bind true st acc) -> In kv acc \/ In kv (bindings st).
Proof.
  destruct st; try (intros acc kv H; cbn [locals_stmt bindings] in *; now left).
  - intros acc kv H. cbn [locals_stmt bindings] in *. apply bind_in in H. exact H.
  - intros acc kv H. cbn [locals_stmt bindings] in *. apply bind_in in H. exact H.
  - intros acc kv H. cbn [locals_stmt bindings] in *. apply bind_in in H. exact H.
  - (* if *)
    assert (Hb : forall acc kv, In kv (block_fold body acc) -> In kv acc \/ In kv (flat_map bindings body)) by (blk_sound locals_sound body).
    assert (Ho : forall acc kv, In kv (block_fold orelse acc) -> In kv acc \/ In kv (flat_map bindings orelse)) by (blk_sound locals_sound orelse).
    intros acc kv H. cbn [locals_stmt bindings] in *.
    apply Ho in H as [H|H]; [|right; apply in_or_app; now right].
    apply Hb in H as [H|H]; [now left|right; apply in_or_app; now left].
  - (* while *)
    assert (Hb : forall acc kv, In kv (block_fold body acc) -> In kv acc \/ In kv (flat_map bindings body)) by (blk_sound locals_sound body).
    assert (Ho : forall acc kv, In kv (block_fold orelse acc) -> In kv acc \/ In kv (flat_map bindings orelse)) by (blk_sound locals_sound orelse).
    intros acc kv H. cbn [locals_stmt bindings] in *.
    apply Ho in H as [H|H]; [|right; apply in_or_app; now right].
    apply Hb in H as [H|H]; [now left|right; apply in_or_app; now left].
  - (* for *)
    assert (Hb : forall acc kv, In kv (block_fold body acc) -> In kv acc \/ In kv (flat_map bindings body)) by (blk_sound locals_sound body).
    assert (Ho : forall acc kv, In kv (block_fold orelse acc) -> In kv acc \/ In kv (flat_map bindings orelse)) by (blk_sound locals_sound orelse).
    intros acc kv H. cbn [locals_stmt bindings] in *.
    apply Ho in H as [H|H]; [|right; apply in_or_app; right; apply in_or_app; now right].
    apply Hb in H as [H|H]; [|right; apply in_or_app; right; apply in_or_app; now left].
    apply bind_in in H as [H|H]; [now left|right; apply in_or_app; now left].
  - (* with *)
    assert (Hb : forall acc kv, In kv (block_fold body acc) -> In kv acc \/ In kv (flat_map bindings body)) by (blk_sound locals_sound body).
    intros acc kv H. cbn [locals_stmt bindings] in *.
    apply Hb in H as [H|H]; [|right; apply in_or_app; now right].
    revert acc H. induction items as [|[c v] items IHi]; intros acc H; cbn [fold_left flat_map snd] in *; [now left|].
    apply IHi in H as [H|H]; [|right; apply in_app_iff in H as [H|H]; apply in_or_app; [left; apply in_or_app; now right|now right]].
    destruct v as [v|]; [|now left]. apply bind_in in H as [H|H]; [now left|]. right. apply in_or_app. left. apply in_or_app. now left.
  - (* try *)
    assert (Hb : forall acc kv, In kv (block_fold body acc) -> In kv acc \/ In kv (flat_map bindings body)) by (blk_sound locals_sound body).
    assert (Ho : forall acc kv, In kv (block_fold orelse acc) -> In kv acc \/ In kv (flat_map bindings orelse)) by (blk_sound locals_sound orelse).
    assert (Hf : forall acc kv, In kv (block_fold finalbody acc) -> In kv acc \/ In kv (flat_map bindings finalbody)) by (blk_sound locals_sound finalbody).
    assert (Hh : forall a kv, In kv (fold_left (fun a h => block_fold h a) handlers a) ->
                            In kv a \/ In kv (flat_map (fun h => flat_map bindings h) handlers)).
    { revert handlers. fix goh 1. intros [|h hs]; [intros a kv Ha; now left|].
      assert (Hh1 : forall acc kv, In kv (block_fold h acc) -> In kv acc \/ In kv (flat_map bindings h)) by (blk_sound locals_sound h).
      intros a kv Ha. cbn [fold_left flat_map] in *.
      apply goh in Ha as [Ha|Ha]; [|right; apply in_or_app; now right].
      apply Hh1 in Ha as [Ha|Ha]; [now left|right; apply in_or_app; now left]. }
    intros acc kv H. cbn [locals_stmt bindings] in *.
    apply Hf in H as [H|H]; [|right; apply in_or_app; right; apply in_or_app; right; apply in_or_app; now right].
    apply Ho in H as [H|H]; [|right; apply in_or_app; right; apply in_or_app; right; apply in_or_app; now left].
    apply Hh in H as [H|H]; [|right; apply in_or_app; right; apply in_or_app; now left].
    apply Hb in H as [H|H]; [now left|right; apply in_or_app; now left].
Qed.

(** a local the scan treats as bound on an earlier line IS bound on an earlier line *)
Theorem local_suppression_justified body n l line :
  lookup_str n (collect_locals body) = Some l -> l < line -> bound_earlier body n line = true.
Proof.
  intros H Hl. unfold lookup_str in H.
  destruct (List.find (fun kv => String.eqb (fst kv) n) (collect_locals body)) as [[k v]|] eqn:E; [|discriminate].
  injection H as ->. apply find_some in E as [Hin Hk]. cbn [fst] in Hk. apply String.eqb_eq in Hk. subst k.
  unfold bound_earlier. apply existsb_exists. exists (n, l). split.
  - unfold collect_locals in Hin. fold (block_fold body []) in Hin.
    assert (G : forall b acc kv, In kv (block_fold b acc) -> In kv acc \/ In kv (flat_map bindings b)).
    { induction b as [|s b IHb]; intros acc kv H; [now left|]. unfold block_fold in *. cbn [fold_left flat_map] in *.
      apply IHb in H as [H|H]; [|right; apply in_or_app; now right].
      apply locals_sound in H as [H|H]; [now left|right; apply in_or_app; now left]. }
    apply G in Hin as [[]|Hin]. exact Hin.
  - cbn [fst snd]. rewrite String.eqb_refl. now apply N.ltb_lt.
Qed.
