(** * Proofs/History: the persistent maps depend on current contents only (C06). *)
From PLS Require Import Model.History Proofs.Basics.
From Coq Require Import Lia.

(** ** effect of visiting the items of one version *)
Lemma fold_visit_plugins F items s : plugin_files (fold_left (visit_item F) items s) = plugin_files s.
Proof.
  revert s; induction items as [|it items IH]; intros s; cbn; [reflexivity|]. rewrite IH.
  destruct it as [u|l|b]; cbn; [reflexivity| |reflexivity].
  unfold record_def; cbn. destruct (existsb _ _); reflexivity.
Qed.

Lemma fold_visit_modnames F items s : modnames (fold_left (visit_item F) items s) = modnames s.
Proof.
  revert s; induction items as [|it items IH]; intros s; cbn; [reflexivity|]. rewrite IH.
  destruct it as [u|l|b]; cbn; [reflexivity| |reflexivity].
  unfold record_def; cbn. destruct (existsb _ _); reflexivity.
Qed.

Lemma fold_visit_cache F items s : file_cache (fold_left (visit_item F) items s) = file_cache s.
Proof.
  revert s; induction items as [|it items IH]; intros s; cbn; [reflexivity|]. rewrite IH.
  destruct it as [u|l|b]; cbn; [reflexivity| |reflexivity].
  unfold record_def; cbn. destruct (existsb _ _); reflexivity.
Qed.

Lemma attach_attach_p s F l : attach s F l = attach_p (plugin_files s) F l.
Proof. reflexivity. Qed.

Lemma record_def_plugins F l s : plugin_files (record_def F l s) = plugin_files s.
Proof. unfold record_def; cbn. destruct (existsb _ _); reflexivity. Qed.

Lemma fold_visit_defs F items s :
  defs (fold_left (visit_item F) items s) = defs s ++ map (attach_p (plugin_files s) F) (item_defs items).
Proof.
  revert s; induction items as [|it items IH]; intros s; cbn; [now rewrite app_nil_r|].
  rewrite IH. destruct it as [u|l|b]; cbn [visit_item item_defs flat_map app map].
  - reflexivity.
  - rewrite record_def_plugins. unfold record_def; cbn. destruct (existsb _ _); cbn; now rewrite <- app_assoc.
  - reflexivity.
Qed.

Lemma fold_visit_usages F items s :
  usages (fold_left (visit_item F) items s) = usages s ++ map (usage_of F) (item_uses items).
Proof.
  revert s; induction items as [|it items IH]; intros s; cbn; [now rewrite app_nil_r|].
  rewrite IH. destruct it as [u|l|b]; cbn.
  - now rewrite <- app_assoc.
  - unfold record_def; cbn. destruct (existsb _ _); reflexivity.
  - reflexivity.
Qed.

Lemma fold_visit_usage_by F items s :
  usage_by (fold_left (visit_item F) items s) = usage_by s ++ map (usage_of F) (item_uses items).
Proof.
  revert s; induction items as [|it items IH]; intros s; cbn; [now rewrite app_nil_r|].
  rewrite IH. destruct it as [u|l|b]; cbn.
  - now rewrite <- app_assoc.
  - unfold record_def; cbn. destruct (existsb _ _); reflexivity.
  - reflexivity.
Qed.

(** file_definitions: the names of the file, in order of first occurrence *)
Lemma existsb_file_defs_app F n base seen :
  (forall x, In x base -> fst x <> F) ->
  existsb (fun fn : path * string => path_eqb (fst fn) F && String.eqb (snd fn) n) (base ++ map (pair F) seen)
  = mem_str n seen.
Proof.
  intros Hb. rewrite existsb_app.
  assert (E : existsb (fun fn : path * string => path_eqb (fst fn) F && String.eqb (snd fn) n) base = false).
  { destruct (existsb _ base) eqn:E; [|reflexivity]. apply existsb_exists in E as [x [Hx Hc]].
    apply andb_prop in Hc as [Hp _]. apply path_eqb_eq in Hp. exfalso. exact (Hb x Hx Hp). }
  rewrite E. cbn. induction seen as [|y seen IH]; cbn; [reflexivity|].
  rewrite path_eqb_refl. cbn. unfold mem_str, memb in *. cbn. rewrite IH.
  now rewrite (String.eqb_sym y n).
Qed.

Lemma fold_visit_file_defs F items s base seen :
  (forall x, In x base -> fst x <> F) ->
  file_defs s = base ++ map (pair F) seen ->
  file_defs (fold_left (visit_item F) items s)
  = base ++ map (pair F) (fold_left add_name (map l_name (item_defs items)) seen).
Proof.
  intros Hb. revert s seen. induction items as [|it items IH]; intros s seen Hs; cbn; [exact Hs|].
  destruct it as [u|l|b]; cbn [visit_item item_defs flat_map app map fold_left].
  - apply IH. exact Hs.
  - apply IH.
    assert (E : file_defs (record_def F l s) =
                if mem_str (l_name l) seen then file_defs s else file_defs s ++ [(F, l_name l)]).
    { unfold record_def. cbn [file_defs set_defs set_file_defs set_version].
      rewrite <- (existsb_file_defs_app F (l_name l) base seen Hb), <- Hs.
      destruct (existsb _ (file_defs s)); reflexivity. }
    change (visit_item F s (IDef l)) with (record_def F l s). rewrite E. unfold add_name.
    destruct (mem_str (l_name l) seen); [exact Hs|].
    rewrite Hs, map_app, app_assoc. reflexivity.
  - apply IH. exact Hs.
Qed.

(** ** flat_map over an association list whose values are tagged by their key *)
Lemma filter_all_false {A} (p : A -> bool) l : (forall x, In x l -> p x = false) -> filter p l = [].
Proof.
  induction l as [|a l IH]; intros H; cbn; [reflexivity|].
  rewrite (H a (or_introl eq_refl)). apply IH. intros x Hx. apply H. now right.
Qed.

Lemma filter_all_true {A} (p : A -> bool) l : (forall x, In x l -> p x = true) -> filter p l = l.
Proof.
  induction l as [|a l IH]; intros H; cbn; [reflexivity|].
  rewrite (H a (or_introl eq_refl)). f_equal. apply IH. intros x Hx. apply H. now right.
Qed.

Lemma filter_flat_map_key {V B} (F : path) (lv : list (path * V)) (g : path * V -> list B) (key : B -> path) :
  (forall fv b, In b (g fv) -> key b = fst fv) ->
  filter (fun b => negb (path_eqb (key b) F)) (flat_map g lv) = flat_map g (aremove F lv).
Proof.
  intros Hk. induction lv as [|fv lv IH]; cbn; [reflexivity|].
  rewrite filter_app, IH. destruct (path_eqb (fst fv) F) eqn:E; cbn.
  - rewrite filter_all_false; [reflexivity|]. intros b Hb. rewrite (Hk fv b Hb), E. reflexivity.
  - rewrite filter_all_true; [reflexivity|]. intros b Hb. rewrite (Hk fv b Hb), E. reflexivity.
Qed.

Lemma flat_map_app' {A B} (g : A -> list B) l1 l2 : flat_map g (l1 ++ l2) = flat_map g l1 ++ flat_map g l2.
Proof. induction l1 as [|a l1 IH]; cbn; [reflexivity|]. now rewrite IH, app_assoc. Qed.

Lemma aremove_map_key {V W} (F : path) (g : V -> W) (lv : list (path * V)) :
  filter (fun kv : path * W => negb (path_eqb (fst kv) F)) (map (fun fv => (fst fv, g (snd fv))) lv)
  = map (fun fv => (fst fv, g (snd fv))) (aremove F lv).
Proof.
  induction lv as [|fv lv IH]; [reflexivity|]. cbn [map filter aremove fst].
  unfold aremove in IH. destruct (path_eqb (fst fv) F); cbn [negb map]; now rewrite IH.
Qed.

(** ** the invariant: the persistent maps are the canonical ones for the latest valid
    version of each file *)
Definition agrees (P : list path) (s : index) (lv : hist) : Prop :=
  persistent_of s = canonical P lv.

Lemma agrees_fields P s lv :
  agrees P s lv <->
  defs s = c_defs P lv /\ file_defs s = c_file_defs lv /\ usages s = c_usages lv /\
  usage_by s = c_usages lv /\ modnames s = c_modnames lv /\ plugin_files s = P.
Proof.
  unfold agrees, persistent_of, canonical. split.
  - intros H. injection H as H1 H2 H3 H4 H5 H6. tauto.
  - intros (H1 & H2 & H3 & H4 & H5 & H6). now rewrite H1, H2, H3, H4, H5, H6.
Qed.

(** every canonical definition of file F is covered by the canonical reverse index *)
Lemma add_name_mono acc n x : In x acc -> In x (add_name acc n).
Proof. unfold add_name. destruct (mem_str n acc); [auto|]. intros H. apply in_or_app. now left. Qed.

Lemma fold_add_name_mono names acc x : In x acc -> In x (fold_left add_name names acc).
Proof. revert acc. induction names as [|n names IH]; intros acc H; cbn; [exact H|]. apply IH, add_name_mono, H. Qed.

Lemma fold_add_name_in names acc x : In x names -> In x (fold_left add_name names acc).
Proof.
  revert acc. induction names as [|n names IH]; intros acc H; [destruct H|]. destruct H as [<-|H]; cbn.
  - apply fold_add_name_mono. unfold add_name. destruct (mem_str n acc) eqn:E.
    + now apply mem_str_in.
    + apply in_or_app. right. now left.
  - now apply IH.
Qed.

Lemma c_defs_file P lv d : In d (c_defs P lv) -> exists fv, In fv lv /\ d_file d = fst fv.
Proof.
  unfold c_defs. intros H. apply in_flat_map in H as [fv [Hfv Hd]]. exists fv. split; [exact Hfv|].
  apply in_map_iff in Hd as [l [<- _]]. reflexivity.
Qed.

(** the cleanup of a re-analysis, on a state that agrees with lv: exactly the file's
    slice disappears from every map *)
Lemma cleanup_defs_canonical P s lv F :
  defs s = c_defs P lv -> file_defs s = c_file_defs lv ->
  defs (cleanup_defs F s) = c_defs P (aremove F lv) /\
  file_defs (cleanup_defs F s) = c_file_defs (aremove F lv).
Proof.
  intros Hd Hf. unfold cleanup_defs. cbn [defs file_defs set_defs set_file_defs]. split.
  - rewrite Hd. unfold c_defs.
    rewrite <- (filter_flat_map_key F lv _ d_file).
    2:{ intros fv b Hb. apply in_map_iff in Hb as [l [<- _]]. reflexivity. }
    apply filter_ext_in. intros d Hin.
    destruct (path_eqb (d_file d) F) eqn:E; [|now rewrite andb_false_r].
    rewrite andb_true_r. f_equal.
    (* the name of a canonical definition of F is in the canonical reverse index of F *)
    apply mem_str_in. unfold file_def_names. rewrite Hf. apply in_map_iff.
    exists (d_file d, d_name d). split; [reflexivity|]. apply filter_In. split; [|exact E].
    fold (c_defs P lv) in Hin. unfold c_defs in Hin.
    apply in_flat_map in Hin as [fv [Hfv Hdm]]. unfold c_file_defs. apply in_flat_map. exists fv. split; [exact Hfv|].
    apply in_map_iff in Hdm as [l [<- Hl]]. cbn [attach_p d_file d_name].
    apply in_map. unfold names_in_order. apply fold_add_name_in. now apply in_map.
  - rewrite Hf. unfold c_file_defs.
    rewrite <- (filter_flat_map_key F lv _ fst).
    2:{ intros fv b Hb. apply in_map_iff in Hb as [nm [<- _]]. reflexivity. }
    reflexivity.
Qed.

Lemma c_file_defs_no_F lv F x : In x (c_file_defs (aremove F lv)) -> fst x <> F.
Proof.
  unfold c_file_defs. intros H. apply in_flat_map in H as [fv [Hfv Hx]].
  apply in_map_iff in Hx as [nm [<- _]]. cbn. unfold aremove in Hfv. apply filter_In in Hfv as [_ Hn].
  apply negb_true_iff in Hn. now apply path_eqb_neq.
Qed.

Theorem analyze_agrees P s lv F v :
  agrees P s lv -> agrees P (analyze true F v s) (lv_step lv (F, v)).
Proof.
  intros H. apply agrees_fields in H as (Hd & Hf & Hu & Hb & Hm & Hp).
  unfold lv_step, analyze. cbn [fst snd].
  destruct (f_ok v) eqn:Ok; cbn [negb].
  2:{ apply agrees_fields. cbn. tauto. }
  set (s1 := set_file_cache s (ainsert F (cached_of v) (file_cache s))).
  set (s2 := cleanup_usages F s1).
  set (s3 := cleanup_defs F s2).
  set (s3v := set_version s3 (version s3 + 1)).
  set (s4 := set_modnames s3v (ainsert F (f_modnames v) (modnames s3v))).
  assert (Hd2 : defs s2 = c_defs P lv) by exact Hd.
  assert (Hf2 : file_defs s2 = c_file_defs lv) by exact Hf.
  destruct (cleanup_defs_canonical P s2 lv F Hd2 Hf2) as [Hd3 Hf3]. fold s3 in Hd3, Hf3.
  apply agrees_fields. repeat split.
  - rewrite fold_visit_defs. unfold c_defs. rewrite flat_map_app'. cbn [flat_map fst snd]. rewrite app_nil_r.
    change (defs s4) with (defs s3). rewrite Hd3. change (plugin_files s4) with (plugin_files s). now rewrite Hp.
  - unfold c_file_defs. rewrite flat_map_app'. cbn [flat_map fst snd]. rewrite app_nil_r.
    unfold names_in_order.
    apply (fold_visit_file_defs F (f_items v) s4 (c_file_defs (aremove F lv)) []).
    + intros x. apply c_file_defs_no_F.
    + cbn [map]. rewrite app_nil_r. exact Hf3.
  - rewrite fold_visit_usages. unfold c_usages. rewrite flat_map_app'. cbn [flat_map fst snd]. rewrite app_nil_r.
    change (usages s4) with (filter (fun u => negb (path_eqb (u_file u) F)) (usages s)). rewrite Hu.
    unfold c_usages. rewrite (filter_flat_map_key F lv _ u_file); [reflexivity|].
    intros fv b Hin. apply in_map_iff in Hin as [u [<- _]]. reflexivity.
  - rewrite fold_visit_usage_by. unfold c_usages. rewrite flat_map_app'. cbn [flat_map fst snd]. rewrite app_nil_r.
    change (usage_by s4) with (filter (fun u => negb (path_eqb (u_file u) F)) (usage_by s)). rewrite Hb.
    unfold c_usages. rewrite (filter_flat_map_key F lv _ u_file); [reflexivity|].
    intros fv b Hin. apply in_map_iff in Hin as [u [<- _]]. reflexivity.
  - rewrite fold_visit_modnames. unfold s4. cbn [modnames set_modnames].
    change (modnames s3v) with (aremove F (modnames s)). rewrite Hm. unfold ainsert, c_modnames.
    rewrite map_app. cbn [map fst snd]. f_equal.
    (* removing F twice = once; and aremove commutes with the map *)
    unfold aremove at 1. unfold aremove at 1. rewrite filter_filter_same. apply aremove_map_key.
  - rewrite fold_visit_plugins. exact Hp.
Qed.

Theorem run_hist_agrees P h : agrees P (run_hist (start P) h) (last_valid h).
Proof.
  unfold run_hist, last_valid.
  assert (G : forall s lv, agrees P s lv ->
              agrees P (fold_left (fun s fv => analyze true (fst fv) (snd fv) s) h s) (fold_left lv_step h lv)).
  { induction h as [|[F v] h IH]; intros s lv H; cbn [fold_left]; [exact H|]. apply IH. cbn [fst snd].
    now apply analyze_agrees. }
  apply G. reflexivity.
Qed.

(** ** consequences *)

(** two histories that leave the same latest valid contents leave the same persistent
    maps — whatever came before (superseded versions, syntax errors, re-sent texts) *)
Theorem history_independent P h1 h2 :
  last_valid h1 = last_valid h2 ->
  persistent_of (run_hist (start P) h1) = persistent_of (run_hist (start P) h2).
Proof.
  intros E. pose proof (run_hist_agrees P h1) as A1. pose proof (run_hist_agrees P h2) as A2.
  unfold agrees in *. now rewrite A1, A2, E.
Qed.

(** well-formed canonical histories: one valid version per file *)
Definition wf_lv (lv : hist) : Prop :=
  NoDup (map fst lv) /\ Forall (fun fv => f_ok (snd fv) = true) lv.

Lemma aremove_notin {V} F (l : list (path * V)) : ~ In F (map fst l) -> aremove F l = l.
Proof.
  intros H. unfold aremove. apply filter_all_true. intros kv Hkv. apply negb_true_iff. apply path_eqb_neq.
  intros E. apply H. apply in_map_iff. exists kv. split; [exact E|exact Hkv].
Qed.

Lemma aremove_keys {V} F (l : list (path * V)) k : In k (map fst (aremove F l)) -> In k (map fst l) /\ k <> F.
Proof.
  intros H. apply in_map_iff in H as [kv [<- Hkv]]. unfold aremove in Hkv. apply filter_In in Hkv as [Hin Hn].
  split; [now apply in_map|]. apply negb_true_iff in Hn. now apply path_eqb_neq.
Qed.

Lemma aremove_NoDup {V} F (l : list (path * V)) : NoDup (map fst l) -> NoDup (map fst (aremove F l)).
Proof.
  induction l as [|kv l IH]; cbn; [auto|]. intros H. inversion H as [|? ? Hn Hl]; subst.
  destruct (path_eqb (fst kv) F); cbn; [now apply IH|]. constructor; [|now apply IH].
  intros Hin. apply aremove_keys in Hin. tauto.
Qed.

Lemma last_valid_wf_gen h acc : wf_lv acc -> wf_lv (fold_left lv_step h acc).
Proof.
  revert acc. induction h as [|fv h IH]; intros acc H; cbn; [exact H|]. apply IH.
  unfold lv_step. destruct (f_ok (snd fv)) eqn:Ok; [|exact H]. destruct H as [Hn Hf]. split.
  - rewrite map_app. cbn. apply NoDup_app_intro; [now apply aremove_NoDup|repeat constructor; intros []|].
    intros k Hk [<-|[]]. apply aremove_keys in Hk. tauto.
  - apply Forall_app. split; [|now repeat constructor].
    apply Forall_forall. intros x Hx. unfold aremove in Hx. apply filter_In in Hx as [Hx _].
    exact (proj1 (Forall_forall _ _) Hf x Hx).
Qed.

Theorem last_valid_wf h : wf_lv (last_valid h).
Proof. apply last_valid_wf_gen. split; constructor. Qed.

Lemma last_valid_id_gen l acc :
  NoDup (map fst (acc ++ l)) -> Forall (fun fv => f_ok (snd fv) = true) l ->
  fold_left lv_step l acc = acc ++ l.
Proof.
  revert acc. induction l as [|fv l IH]; intros acc Hn Hf; cbn; [now rewrite app_nil_r|].
  inversion Hf as [|? ? Ok Hf']; subst. unfold lv_step at 2. rewrite Ok.
  assert (Hnot : ~ In (fst fv) (map fst acc)).
  { rewrite map_app in Hn. cbn in Hn. apply NoDup_remove_2 in Hn. intros Hin. apply Hn. apply in_or_app. now left. }
  rewrite (aremove_notin _ _ Hnot). rewrite IH; [now rewrite <- app_assoc|now rewrite <- app_assoc|exact Hf'].
Qed.

Theorem last_valid_idempotent lv : wf_lv lv -> last_valid lv = lv.
Proof. intros [Hn Hf]. unfold last_valid. now rewrite last_valid_id_gen. Qed.

(** the long-lived server and a server started fresh on the latest valid contents
    hold the same persistent maps *)
Theorem equals_fresh P h :
  persistent_of (run_hist (start P) h) = persistent_of (run_hist (start P) (last_valid h)).
Proof. apply history_independent. symmetry. apply last_valid_idempotent, last_valid_wf. Qed.

(** while a document is syntactically invalid its last valid facts stay in effect *)
Theorem invalid_keeps_last_valid F v s :
  f_ok v = false -> persistent_of (analyze true F v s) = persistent_of s /\ undeclared (analyze true F v s) = undeclared s.
Proof. intros H. unfold analyze. rewrite H. cbn. split; reflexivity. Qed.

(** nothing superseded survives: every definition of the index is a definition of the
    latest valid version of its file; same for usages *)
Theorem no_stale_definition P h d :
  In d (defs (run_hist (start P) h)) ->
  exists v l, In (d_file d, v) (last_valid h) /\ In l (item_defs (f_items v)) /\ d = attach_p P (d_file d) l.
Proof.
  pose proof (run_hist_agrees P h) as A. apply agrees_fields in A as (Hd & _). rewrite Hd. unfold c_defs.
  intros H. apply in_flat_map in H as [[F v] [Hfv Hm]]. cbn [fst snd] in Hm. apply in_map_iff in Hm as [l [<- Hl]].
  exists v, l. cbn [attach_p d_file]. auto.
Qed.

Theorem no_stale_usage P h u :
  In u (usages (run_hist (start P) h)) ->
  exists v lu, In (u_file u, v) (last_valid h) /\ In lu (item_uses (f_items v)) /\ u = usage_of (u_file u) lu.
Proof.
  pose proof (run_hist_agrees P h) as A. apply agrees_fields in A as (_ & _ & Hu & _). rewrite Hu. unfold c_usages.
  intros H. apply in_flat_map in H as [[F v] [Hfv Hm]]. cbn [fst snd] in Hm. apply in_map_iff in Hm as [lu [<- Hl]].
  exists v, lu. cbn [usage_of u_file]. auto.
Qed.

(** nothing is duplicated: the multiplicity of an entry is its multiplicity in the
    latest valid version (shown here as: a file occurs once in [last_valid]) *)
Theorem one_version_per_file h : NoDup (map fst (last_valid h)).
Proof. apply last_valid_wf. Qed.

(** ** the undeclared-fixture findings of the document analysed last *)
Definition same_view (F : path) (s s' : index) : Prop :=
  defs s = defs s' /\ modnames s = modnames s' /\ plugin_files s = plugin_files s' /\
  undeclared_of_file s F = undeclared_of_file s' F.

Lemma flagged_same_view F s s' b x : defs s = defs s' -> modnames s = modnames s' -> flagged s F b x = flagged s' F b x.
Proof.
  intros Hd Hm. unfold flagged, local_in_scope, is_available, defs_named. now rewrite Hd, Hm.
Qed.

Lemma visit_item_same_view F s s' it : same_view F s s' -> same_view F (visit_item F s it) (visit_item F s' it).
Proof.
  intros (Hd & Hm & Hp & Hu). destruct it as [u|l|b]; cbn [visit_item].
  - repeat split; assumption.
  - unfold same_view, record_def. cbn [defs set_defs set_file_defs set_version].
    assert (E : attach s F l = attach s' F l) by (unfold attach; now rewrite Hp).
    repeat split.
    + destruct (existsb _ _), (existsb _ _); cbn; now rewrite Hd, E.
    + destruct (existsb _ _), (existsb _ _); cbn; exact Hm.
    + destruct (existsb _ _), (existsb _ _); cbn; exact Hp.
    + destruct (existsb _ _), (existsb _ _); cbn; exact Hu.
  - unfold same_view, scan_body. cbn [defs modnames plugin_files set_undeclared].
    repeat split; try assumption.
    unfold undeclared_of_file in *. cbn [undeclared set_undeclared]. rewrite !filter_app, Hu. f_equal.
    f_equal. f_equal. apply filter_ext. intros x. now apply flagged_same_view.
Qed.

Lemma fold_visit_same_view F items s s' :
  same_view F s s' -> same_view F (fold_left (visit_item F) items s) (fold_left (visit_item F) items s').
Proof. revert s s'. induction items as [|it items IH]; intros s s' H; cbn; [exact H|]. apply IH, visit_item_same_view, H. Qed.

Lemma aremove_twice {V} F (l : list (path * V)) : aremove F (aremove F l) = aremove F l.
Proof. unfold aremove. apply filter_filter_same. Qed.

Lemma wf_aremove F lv : wf_lv lv -> wf_lv (aremove F lv).
Proof.
  intros [Hn Hf]. split; [now apply aremove_NoDup|].
  apply Forall_forall. intros x Hx. unfold aremove in Hx. apply filter_In in Hx as [Hx _].
  exact (proj1 (Forall_forall _ _) Hf x Hx).
Qed.

Lemma run_hist_app s0 h1 h2 : run_hist s0 (h1 ++ h2) = run_hist (run_hist s0 h1) h2.
Proof. unfold run_hist. apply fold_left_app. Qed.

Lemma last_valid_snoc h fv : last_valid (h ++ [fv]) = lv_step (last_valid h) fv.
Proof. unfold last_valid. now rewrite fold_left_app. Qed.

Theorem undeclared_of_last_analysed P h F v :
  f_ok v = true ->
  undeclared_of_file (run_hist (start P) (h ++ [(F, v)])) F
  = undeclared_of_file (run_hist (start P) (last_valid (h ++ [(F, v)]))) F.
Proof.
  intros Ok. rewrite last_valid_snoc. unfold lv_step. cbn [fst snd]. rewrite Ok.
  rewrite !run_hist_app. cbn [run_hist fold_left fst snd].
  set (lvA := last_valid h). set (lvB := aremove F lvA).
  set (sA := run_hist (start P) h). set (sB := run_hist (start P) lvB).
  assert (AA : agrees P sA lvA) by apply run_hist_agrees.
  assert (AB : agrees P sB lvB).
  { unfold sB. rewrite <- (last_valid_idempotent lvB) at 2; [apply run_hist_agrees|].
    apply wf_aremove, last_valid_wf. }
  apply agrees_fields in AA as (HdA & HfA & _ & _ & HmA & HpA).
  apply agrees_fields in AB as (HdB & HfB & _ & _ & HmB & HpB).
  unfold analyze. rewrite Ok. cbn [negb].
  match goal with
  | |- undeclared_of_file (fold_left _ _ ?x) F = undeclared_of_file (fold_left _ _ ?y) F =>
      assert (SV : same_view F x y)
  end.
  { unfold same_view. cbn [defs modnames plugin_files set_modnames set_version].
    repeat split.
    - match goal with |- defs (cleanup_defs F ?a) = defs (cleanup_defs F ?b) =>
        destruct (cleanup_defs_canonical P a lvA F HdA HfA) as [X _];
        destruct (cleanup_defs_canonical P b lvB F HdB HfB) as [Y _] end.
      rewrite X, Y. unfold lvB. now rewrite aremove_twice.
    - unfold cleanup_defs, cleanup_usages. cbn [modnames set_modnames set_defs set_file_defs set_usage_by set_usages set_undeclared set_file_cache].
      rewrite HmA, HmB. unfold ainsert. f_equal. rewrite !aremove_twice.
      assert (X : forall lv0, aremove F (c_modnames lv0) = c_modnames (aremove F lv0)).
      { intros lv0. unfold c_modnames. unfold aremove at 1. apply aremove_map_key. }
      rewrite !X. unfold lvB. now rewrite aremove_twice.
    - cbn. now rewrite HpA, HpB.
    - unfold undeclared_of_file, cleanup_defs, cleanup_usages.
      cbn [undeclared set_modnames set_defs set_file_defs set_usage_by set_usages set_undeclared set_file_cache set_version].
      rewrite !filter_all_false; [reflexivity| |].
      + intros x Hx. apply filter_In in Hx as [_ Hx]. now apply negb_true_iff in Hx.
      + intros x Hx. apply filter_In in Hx as [_ Hx]. now apply negb_true_iff in Hx. }
  apply (fold_visit_same_view F (f_items v)) in SV. destruct SV as (_ & _ & _ & E). exact E.
Qed.
