(** * Which lines belong to a fixture function (C02 / C01): [get_fixture_definition_at_line]
    answers for EVERY line from the [def] line to the function's last line, both included -
    in particular for a one-line function ([def db(db): return db]) and for a parameter that
    shares the last line with the body.  The half-open reading (seeded changes S110 / S113)
    loses exactly the last line. *)
From Coq Require Import Lia.
From PLS Require Import Model.Resolve Proofs.Basics.
Local Open Scope N_scope.

Definition spans (F : path) (line : N) (d : fdef) : bool :=
  path_eqb (d_file d) F && (d_line d <=? line) && (line <=? d_end_line d).

Theorem def_at_line_finds_a_spanning_definition s F line d :
  In d (defs s) -> d_file d = F -> d_line d <= line -> line <= d_end_line d ->
  exists d', def_at_line s F line = Some d' /\ In d' (defs s) /\ spans F line d' = true.
Proof.
  intros Hin Hf Hl He. unfold def_at_line.
  assert (Hs : spans F line d = true).
  { unfold spans. rewrite Hf, path_eqb_refl. cbn [andb].
    apply andb_true_intro. split; apply N.leb_le; assumption. }
  destruct (find (fun d0 => path_eqb (d_file d0) F && (d_line d0 <=? line) && (line <=? d_end_line d0)) (defs s)) as [d'|] eqn:E.
  - exists d'. split; [reflexivity|]. apply find_some in E as [Hi Hp]. split; [exact Hi|exact Hp].
  - exfalso. pose proof (find_none _ _ E d Hin) as Hn. unfold spans in Hs. cbv beta in Hn. rewrite Hs in Hn. discriminate.
Qed.

(** when the file's definitions do not overlap on that line, it is that very definition *)
Corollary def_at_line_on_every_line_of_the_function s F line d :
  In d (defs s) -> d_file d = F -> d_line d <= line -> line <= d_end_line d ->
  (forall d', In d' (defs s) -> spans F line d' = true -> d' = d) ->
  def_at_line s F line = Some d.
Proof.
  intros Hin Hf Hl He Hu.
  destruct (def_at_line_finds_a_spanning_definition s F line d Hin Hf Hl He) as [d' [E [Hi Hs]]].
  rewrite E. f_equal. now apply Hu.
Qed.

(** the half-open reading *)
Definition def_at_line_half_open (s : index) (F : path) (line : N) : option fdef :=
  find (fun d => path_eqb (d_file d) F && (d_line d <=? line) && (line <? d_end_line d)) (defs s).

Definition one_liner : fdef :=
  mk_fdef "db" ["conftest.py"; "api"] 4 4 4 6 None None false false ["db"] 0 None false.
Definition s_one := set_defs empty_index [one_liner].
Lemma def_at_line_half_open_refuted :
  def_at_line s_one ["conftest.py"; "api"] 4 = Some one_liner /\
  def_at_line_half_open s_one ["conftest.py"; "api"] 4 = None.
Proof. vm_compute. split; reflexivity. Qed.
