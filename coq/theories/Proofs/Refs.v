(** * Proofs/Refs: find-references against go-to-definition (C04). *)
From PLS Require Import Check.C04 Proofs.Basics Proofs.Invariants.
From Coq Require Import FinFun.

Section Refs.
  Variable dk : disk.
  Variable roots : list path.
  Variable s : index.

  Theorem refs_iff d u :
    In u (refs dk roots s d) <->
    In u (usage_by_name s (d_name d)) /\ resolve_usage dk roots s (u_file u) (u_line u) (u_name u) = Some d.
  Proof.
    unfold refs. rewrite filter_In. split; intros [Hu H]; (split; [exact Hu|]).
    - destruct (resolve_usage dk roots s (u_file u) (u_line u) (u_name u)) as [d'|]; [|discriminate].
      apply fdef_eqb_eq in H. now subst.
    - rewrite H. apply fdef_eqb_refl.
  Qed.

  Theorem unresolved_in_no_refs u :
    resolve_usage dk roots s (u_file u) (u_line u) (u_name u) = None -> forall d, ~ In u (refs dk roots s d).
  Proof. intros H d Hin. apply refs_iff in Hin as [_ E]. congruence. Qed.

  Theorem refs_single_target u d1 d2 :
    In u (refs dk roots s d1) -> In u (refs dk roots s d2) -> d1 = d2.
  Proof. intros H1 H2. apply refs_iff in H1 as [_ E1]. apply refs_iff in H2 as [_ E2]. congruence. Qed.

  Theorem refs_nodup d : NoDup (usage_by s) -> NoDup (refs dk roots s d).
  Proof. intros H. unfold refs, usage_by_name. now do 2 apply NoDup_filter. Qed.

  (** the listed usages are recorded usages of their file, under the mirror invariant *)
  Theorem refs_recorded d u :
    mirror s -> In u (refs dk roots s d) -> In u (usages_of_file s (u_file u)) /\ u_name u = d_name d.
  Proof.
    intros Hm Hin. apply refs_iff in Hin as [Hu _]. unfold usage_by_name in Hu. apply filter_In in Hu as [Hu Hn].
    apply String.eqb_eq in Hn. split; [|exact Hn]. unfold usages_of_file. apply filter_In.
    split; [now rewrite <- Hm|apply path_eqb_refl].
  Qed.
End Refs.

(** ** no usage is recorded twice, in every reachable state, provided no single
    version of a file lists the same usage twice *)
Definition lusage_eq_dec : forall a b : lusage, {a = b} + {a <> b}.
Proof. decide equality; try apply N.eq_dec; apply string_dec. Defined.

Definition item_usages (items : list item) : list lusage :=
  flat_map (fun it => match it with IUse u => [u] | _ => [] end) items.

Definition facts_nodup (v : facts) : Prop := NoDup (item_usages (f_items v)).

Definition op_nodup (o : wop) : Prop :=
  match o with OAnalyze _ _ v => facts_nodup v | _ => True end.

Lemma fold_visit_usages F items s :
  usages (fold_left (visit_item F) items s) =
  usages s ++ map (fun u => mk_usage (lu_name u) F (lu_line u) (lu_start u) (lu_end u)) (item_usages items).
Proof.
  revert s; induction items as [|it items IH]; intros s; cbn; [now rewrite app_nil_r|].
  rewrite IH. destruct it as [u|l|b]; cbn.
  - now rewrite <- app_assoc.
  - unfold record_def; cbn. destruct (existsb _ _); reflexivity.
  - reflexivity.
Qed.

Lemma analyze_usages_nodup c F v s :
  facts_nodup v -> NoDup (usages s) -> NoDup (usages (analyze c F v s)).
Proof.
  intros Hv Hs. unfold analyze. destruct (negb (f_ok v)); [exact Hs|].
  rewrite fold_visit_usages.
  set (base := if c then cleanup_defs F (cleanup_usages F (set_file_cache s (ainsert F (cached_of v) (file_cache s))))
               else cleanup_usages F (set_file_cache s (ainsert F (cached_of v) (file_cache s)))).
  set (basev := set_version base (version base + 1)).
  assert (Hb : usages (set_modnames basev (ainsert F (f_modnames v) (modnames basev))) =
               filter (fun u => negb (path_eqb (u_file u) F)) (usages s)).
  { unfold basev, base. destruct c; reflexivity. }
  rewrite Hb.
  apply NoDup_app_intro.
  - now apply NoDup_filter.
  - apply FinFun.Injective_map_NoDup; [|exact Hv].
    intros [a1 a2 a3 a4] [b1 b2 b3 b4]; cbn. intros [= -> -> -> ->]. reflexivity.
  - intros u Hu Hm. apply filter_In in Hu as [_ Hf]. apply in_map_iff in Hm as [lu [<- _]]. cbn in Hf.
    rewrite path_eqb_refl in Hf. discriminate.
Qed.

Theorem usages_nodup_reachable ops :
  Forall op_nodup ops -> NoDup (usages (run_ops ops)) /\ NoDup (usage_by (run_ops ops)).
Proof.
  intros Hops.
  assert (G : NoDup (usages (run_ops ops))).
  { unfold run_ops.
    assert (H : forall s, NoDup (usages s) -> NoDup (usages (fold_left apply_wop ops s))).
    { induction Hops as [|o ops Ho _ IH]; intros s Hs; cbn; [exact Hs|]. apply IH.
      destruct o as [c F v|F|F]; cbn.
      - now apply analyze_usages_nodup.
      - exact Hs.
      - unfold mark_plugin. destruct (mem_path F (plugin_files s)); exact Hs. }
    apply H. constructor. }
  split; [exact G|]. now rewrite (mirror_reachable ops).
Qed.
