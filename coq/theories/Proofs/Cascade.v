(** * Proofs/Cascade: the priority cascade of the resolver against the provider
    classes of Spec/Pytest — any depth, any number of definitions, with or without
    an excluded definition (the self-named parameter of C02). *)
From PLS Require Import Check.C01 Proofs.Basics.
From Coq Require Import Lia.

Section Cascade.
  Variable dk : disk.
  Variable roots : list path.
  Variable s : index.
  Variable n : string.
  Variable ex : option fdef.

  Notation dn := (defs_named s n).
  Notation allowed_in := (allowed_in s n).
  Notation class_empty := (class_empty s n).
  Notation flt := (flt_of ex).

  Lemma class_empty_true C : class_empty C = true <-> forall d, In d dn -> C d = false.
  Proof.
    unfold Spec.Pytest.class_empty. rewrite negb_true_iff. split.
    - intros H d Hd. destruct (C d) eqn:E; [|reflexivity].
      assert (existsb C dn = true) by (apply existsb_exists; eauto). congruence.
    - intros H. destruct (existsb C dn) eqn:E; [|reflexivity].
      apply existsb_exists in E as [d [Hd Cd]]. rewrite (H d Hd) in Cd; discriminate.
  Qed.

  Lemma allowed_in_skip C cs r : class_empty C = true -> allowed_in (C :: cs) r = allowed_in cs r.
  Proof. intros H; cbn. now rewrite H. Qed.

  Lemma allowed_in_hit C cs d : C d = true -> In d dn -> allowed_in (C :: cs) (Some d) = true.
  Proof.
    intros Cd Hd; cbn.
    assert (E : class_empty C = false).
    { unfold Spec.Pytest.class_empty. apply negb_false_iff, existsb_exists; eauto. }
    rewrite E, Cd. cbn. now apply memb_fdef_in.
  Qed.

  Lemma allowed_in_all_empty cs : (forall C, In C cs -> class_empty C = true) -> allowed_in cs None = true.
  Proof.
    induction cs as [|C cs IH]; intros H; [reflexivity|].
    rewrite allowed_in_skip by (apply H; now left). apply IH; intros; apply H; now right.
  Qed.

  Lemma without_flt C d : without ex C d = C d && flt d.
  Proof. reflexivity. Qed.

  (** ** one module: the last binding *)
  Lemma last_binding_own_last m :
    last_binding flt dn m = match own_last s m n with
                            | Some d => if flt d then Some d else None
                            | None => None
                            end.
  Proof. reflexivity. Qed.

  Lemma last_binding_some m d :
    last_binding flt dn m = Some d ->
    without ex (same_file_class s m n) d = true /\ In d dn.
  Proof.
    rewrite last_binding_own_last. destruct (own_last s m n) as [d0|] eqn:Eo; [|discriminate].
    destruct (flt d0) eqn:Ef; [|discriminate]. intros [= <-].
    rewrite without_flt, Ef. unfold same_file_class. rewrite Eo, fdef_eqb_refl. split; [reflexivity|].
    apply max_by_key_in in Eo. unfold defs_in in Eo. apply filter_In in Eo. tauto.
  Qed.

  Lemma last_binding_none m :
    last_binding flt dn m = None -> class_empty (without ex (same_file_class s m n)) = true.
  Proof.
    rewrite last_binding_own_last. intros H. apply class_empty_true. intros d Hd.
    rewrite without_flt. unfold same_file_class.
    destruct (own_last s m n) as [d0|]; [|reflexivity].
    destruct (fdef_eqb d d0) eqn:E; [|reflexivity]. apply fdef_eqb_eq in E; subst d0.
    destruct (flt d); [discriminate|reflexivity].
  Qed.

  (** ** the conftest walk.  [imports_complete dir]: when the spec finds a module that
      supplies [n] to the conftest of [dir], the resolver's imported-name set of that
      conftest contains [n] (the soundness half of the import closure; C14). *)
  Definition imports_complete (dir : path) : Prop :=
    forall d, In d dn -> import_class dk roots s (conftest_py :: dir) n d = true ->
              is_imported dk roots s n (conftest_py :: dir) = true.

  Lemma conftest_step_none_empty dir :
    imports_complete dir ->
    conftest_step dk roots s flt dn n dir = None ->
    class_empty (without ex (conftest_class dk roots s dir n)) = true.
  Proof.
    intros Himp H. unfold conftest_step in H.
    destruct (last_binding flt dn (conftest_py :: dir)) as [d0|] eqn:El; [discriminate|].
    pose proof (last_binding_none _ El) as Hown.
    apply class_empty_true. intros d Hd. rewrite without_flt. unfold conftest_class.
    destruct (flt d) eqn:Ef; [|apply andb_false_r]. rewrite andb_true_r.
    apply orb_false_iff; split.
    - pose proof (proj1 (class_empty_true _) Hown d Hd) as X. rewrite without_flt, Ef, andb_true_r in X. exact X.
    - destruct (import_class dk roots s (conftest_py :: dir) n d) eqn:Ei; [|reflexivity]. exfalso.
      pose proof (Himp d Hd Ei) as Him.
      unfold import_class in Ei. apply andb_prop in Ei as [Ek _].
      rewrite Ek, Him in H. cbn in H.
      pose proof (find_none _ _ H d Hd) as X. cbn beta in X. congruence.
  Qed.

  Lemma walk dirs rest :
    (forall dir, In dir dirs -> imports_complete dir) ->
    (forall dir d, stop_at dk roots s flt n dirs = Some (dir, d) ->
                   conftest_class dk roots s dir n d = true) ->
    match first_some (conftest_step dk roots s flt dn n) dirs with
    | Some d => allowed_in (map (without ex) (map (fun dir => conftest_class dk roots s dir n) dirs) ++ rest) (Some d) = true
    | None => forall r, allowed_in (map (without ex) (map (fun dir => conftest_class dk roots s dir n) dirs) ++ rest) r
                        = allowed_in rest r
    end.
  Proof.
    induction dirs as [|dir dirs IH]; intros Himp HK; cbn [first_some map app]; [reflexivity|].
    destruct (conftest_step dk roots s flt dn n dir) as [d|] eqn:Es.
    - (* the walk stops here *)
      assert (Hstop : stop_at dk roots s flt n (dir :: dirs) = Some (dir, d)).
      { unfold stop_at; cbn [first_some]. now rewrite Es. }
      pose proof (HK dir d Hstop) as Hclass.
      assert (Hd : In d dn /\ flt d = true).
      { unfold conftest_step in Es.
        destruct (last_binding flt dn (conftest_py :: dir)) as [d0|] eqn:El.
        - injection Es as <-. destruct (last_binding_some _ _ El) as [Hw Hin]. split; [exact Hin|].
          rewrite without_flt in Hw. apply andb_prop in Hw. tauto.
        - destruct ((disk_file dk (conftest_py :: dir) || in_cache s (conftest_py :: dir))
                    && is_imported dk roots s n (conftest_py :: dir)); [|discriminate].
          apply find_some in Es. exact Es. }
      destruct Hd as [Hin Hf].
      apply allowed_in_hit; [|exact Hin]. now rewrite without_flt, Hclass, Hf.
    - (* nothing here: the class is empty, go on *)
      assert (He : class_empty (without ex (conftest_class dk roots s dir n)) = true).
      { apply conftest_step_none_empty; [apply Himp; now left|exact Es]. }
      assert (IH' := IH (fun d H => Himp d (or_intror H))).
      assert (HK' : forall dir0 d, stop_at dk roots s flt n dirs = Some (dir0, d) ->
                                   conftest_class dk roots s dir0 n d = true).
      { intros dir0 d Hs. apply HK. unfold stop_at in *; cbn [first_some]. now rewrite Es. }
      specialize (IH' HK').
      destruct (first_some (conftest_step dk roots s flt dn n) dirs) as [d|].
      + now rewrite allowed_in_skip.
      + intros r. rewrite allowed_in_skip by exact He. apply IH'.
  Qed.

  (** ** the whole cascade *)
  Theorem closest_with_allowed_in F :
    (forall dir, In dir (ancestors (tl F)) -> imports_complete dir) ->
    K_import_provenance dk roots s ex F n = false ->
    F <> [] ->
    allowed_in (map (without ex) (providers dk roots s F n)) (closest_with dk roots s flt F n) = true.
  Proof.
    intros Himp HK HF. unfold closest_with, providers.
    destruct dn as [|x0 l0] eqn:Edn.
    { apply allowed_in_all_empty. intros C _. apply class_empty_true. rewrite Edn. intros d []. }
    rewrite <- Edn. cbn [map].
    destruct (last_binding flt dn F) as [d|] eqn:El.
    { destruct (last_binding_some _ _ El) as [Hc Hd]. now apply allowed_in_hit. }
    rewrite allowed_in_skip by (now apply last_binding_none).
    destruct F as [|f dir]; [contradiction|]. cbn [tl] in *.
    assert (HK' : forall dir0 d, stop_at dk roots s flt n (ancestors dir) = Some (dir0, d) ->
                                 conftest_class dk roots s dir0 n d = true).
    { intros dir0 d Hs. unfold K_import_provenance, import_stop in HK. cbn [tl] in HK.
      rewrite El, Hs in HK. now apply negb_false_iff in HK. }
    rewrite map_app.
    pose proof (walk (ancestors dir) (map (without ex) [plugin_class; third_class]) Himp HK') as W.
    destruct (first_some (conftest_step dk roots s flt dn n) (ancestors dir)) as [d|]; [exact W|].
    rewrite W. cbn [map].
    (* plugin, then third party *)
    destruct (find (fun d => d_plugin d && negb (d_third d) && flt d) dn) as [d|] eqn:Ep.
    { apply find_some in Ep as [Hd Hp]. now apply allowed_in_hit. }
    assert (Hpe : class_empty (without ex plugin_class) = true).
    { apply class_empty_true. intros d Hd. exact (find_none _ _ Ep d Hd). }
    rewrite allowed_in_skip by exact Hpe.
    destruct (find (fun d => d_third d && flt d) dn) as [d|] eqn:Et.
    { apply find_some in Et as [Hd Ht]. now apply allowed_in_hit. }
    assert (Hte : class_empty (without ex third_class) = true).
    { apply class_empty_true. intros d Hd. exact (find_none _ _ Et d Hd). }
    rewrite allowed_in_skip by exact Hte. reflexivity.
  Qed.
End Cascade.

(** ** consequences phrased on [allowed] / [visible] *)
Section Allowed.
  Variable dk : disk.
  Variable roots : list path.
  Variable s : index.
  Variable n : string.

  Lemma allowed_in_some_member cs d :
    allowed_in s n cs (Some d) = true -> exists C, In C cs /\ C d = true /\ In d (defs_named s n).
  Proof.
    induction cs as [|C cs IH]; cbn; [discriminate|].
    destruct (class_empty s n C).
    - intros H. destruct (IH H) as [C' [Hi Hc]]. exists C'; split; [now right|exact Hc].
    - intros H. apply andb_prop in H as [Hc Hm]. exists C. split; [now left|]. split; [exact Hc|].
      now apply memb_fdef_in.
  Qed.

  Lemma allowed_in_none_all_empty cs :
    allowed_in s n cs None = true -> forall C, In C cs -> class_empty s n C = true.
  Proof.
    induction cs as [|C cs IH]; cbn; [intros _ C []|].
    destruct (class_empty s n C) eqn:E; [|discriminate].
    intros H C' [<-|Hi]; [exact E|now apply IH].
  Qed.

  Theorem closest_with_allowed ex F :
    F <> [] ->
    (forall dir, In dir (ancestors (tl F)) -> imports_complete dk roots s n dir) ->
    K_import_provenance dk roots s ex F n = false ->
    allowed_ex dk roots s ex F n (closest_with dk roots s (flt_of ex) F n) = true.
  Proof.
    intros HF Himp HK. unfold allowed_ex. apply orb_true_iff; left. now apply closest_with_allowed_in.
  Qed.

  Theorem closest_allowed F :
    F <> [] ->
    (forall dir, In dir (ancestors (tl F)) -> imports_complete dk roots s n dir) ->
    K_import_provenance dk roots s None F n = false ->
    allowed dk roots s F n (closest dk roots s F n) = true.
  Proof. exact (closest_with_allowed None F). Qed.

  Lemma without_member ex C d : without ex C d = true -> C d = true /\ flt_of ex d = true.
  Proof. unfold without, flt_of. intros H. apply andb_prop in H. exact H. Qed.

  Theorem closest_with_visible ex F d :
    F <> [] ->
    (forall dir, In dir (ancestors (tl F)) -> imports_complete dk roots s n dir) ->
    K_import_provenance dk roots s ex F n = false ->
    closest_with dk roots s (flt_of ex) F n = Some d ->
    visible dk roots s F n d = true /\ In d (defs_named s n) /\ flt_of ex d = true.
  Proof.
    intros HF Himp HK E. pose proof (closest_with_allowed_in dk roots s n ex F Himp HK HF) as A. rewrite E in A.
    apply allowed_in_some_member in A as [C [Hi [Hc Hd]]].
    apply in_map_iff in Hi as [C0 [<- Hi0]]. apply without_member in Hc as [Hc Hf].
    split; [|split; [exact Hd|exact Hf]].
    unfold visible. apply orb_true_iff; left. apply existsb_exists. eauto.
  Qed.

  Theorem closest_visible F d :
    F <> [] ->
    (forall dir, In dir (ancestors (tl F)) -> imports_complete dk roots s n dir) ->
    K_import_provenance dk roots s None F n = false ->
    closest dk roots s F n = Some d -> visible dk roots s F n d = true /\ In d (defs_named s n).
  Proof.
    intros HF Himp HK E. destruct (closest_with_visible None F d HF Himp HK E) as [A [B _]]. tauto.
  Qed.

  Theorem closest_none_invisible F d :
    F <> [] ->
    (forall dir, In dir (ancestors (tl F)) -> imports_complete dk roots s n dir) ->
    K_import_provenance dk roots s None F n = false ->
    closest dk roots s F n = None -> In d (defs_named s n) ->
    existsb (fun C => C d) (providers dk roots s F n) = false.
  Proof.
    intros HF Himp HK E Hd. pose proof (closest_with_allowed_in dk roots s n None F Himp HK HF) as A.
    unfold closest in E. change (flt_of None) with (fun _ : fdef => true) in A. rewrite E in A.
    pose proof (allowed_in_none_all_empty _ A) as Hall.
    destruct (existsb (fun C => C d) (providers dk roots s F n)) eqn:X; [|reflexivity].
    apply existsb_exists in X as [C [Hi Hc]].
    assert (Hi' : In (without None C) (map (without None) (providers dk roots s F n))) by (apply in_map; exact Hi).
    specialize (Hall _ Hi').
    pose proof (proj1 (class_empty_true s n (without None C)) Hall d Hd) as Hf.
    unfold without in Hf. rewrite Hc in Hf. discriminate.
  Qed.

  (** whatever the cascade returns passes the filter *)
  Lemma closest_with_flt flt F d : closest_with dk roots s flt F n = Some d -> flt d = true.
  Proof.
    unfold closest_with.
    destruct (defs_named s n) as [|x0 l0] eqn:Edn; [discriminate|]. rewrite <- Edn.
    assert (Hlb : forall m d0, last_binding flt (defs_named s n) m = Some d0 -> flt d0 = true).
    { intros m d0. unfold last_binding.
      destruct (max_by_key d_line (filter (fun d1 => path_eqb (d_file d1) m) (defs_named s n))) as [d1|]; [|discriminate].
      destruct (flt d1) eqn:Ef; [|discriminate]. now intros [= <-]. }
    destruct (last_binding flt (defs_named s n) F) as [d0|] eqn:El.
    { intros [= <-]. eapply Hlb; eauto. }
    destruct F as [|f dir]; [discriminate|].
    destruct (first_some (conftest_step dk roots s flt (defs_named s n) n) (ancestors dir)) as [d0|] eqn:Ew.
    { intros [= <-]. apply first_some_some in Ew as [dir0 [_ Es]]. unfold conftest_step in Es.
      destruct (last_binding flt (defs_named s n) (conftest_py :: dir0)) as [d1|] eqn:El1.
      - injection Es as <-. eapply Hlb; eauto.
      - destruct ((disk_file dk (conftest_py :: dir0) || in_cache s (conftest_py :: dir0))
                  && is_imported dk roots s n (conftest_py :: dir0)); [|discriminate].
        apply find_some in Es. tauto. }
    destruct (find (fun d0 => d_plugin d0 && negb (d_third d0) && flt d0) (defs_named s n)) as [d0|] eqn:Ep.
    { intros [= <-]. apply find_some in Ep as [_ Hp]. apply andb_prop in Hp. tauto. }
    intros Et. apply find_some in Et as [_ Ht]. apply andb_prop in Ht. tauto.
  Qed.

  (** the self-named parameter never resolves to the fixture that declares it *)
  Theorem closest_excluding_never_self F x :
    closest_excluding dk roots s F n x <> Some x.
  Proof.
    unfold closest_excluding. intros E. apply closest_with_flt in E.
    rewrite fdef_eqb_refl in E. discriminate.
  Qed.
End Allowed.
