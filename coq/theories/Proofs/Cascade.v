(** * Proofs/Cascade: the priority cascade of the resolver against the provider
    classes of Spec/Pytest (any depth, any number of definitions). *)
From PLS Require Import Check.C01 Proofs.Basics.
From Coq Require Import Lia.

Section Cascade.
  Variable dk : disk.
  Variable roots : list path.
  Variable s : index.
  Variable n : string.

  Notation dn := (defs_named s n).
  Notation allowed_in := (allowed_in s n).
  Notation class_empty := (class_empty s n).

  Lemma class_empty_true C : class_empty C = true <-> forall d, In d dn -> C d = false.
  Proof.
    unfold Spec.Pytest.class_empty. rewrite negb_true_iff. split.
    - intros H d Hd. destruct (C d) eqn:E; [|reflexivity].
      assert (existsb C dn = true) by (apply existsb_exists; eauto). congruence.
    - intros H. destruct (existsb C dn) eqn:E; [|reflexivity].
      apply existsb_exists in E as [d [Hd Cd]]. rewrite (H d Hd) in Cd; discriminate.
  Qed.

  Lemma allowed_in_skip C cs r : class_empty C = true -> allowed_in (C :: cs) r = allowed_in cs r.
  Proof. intros H; cbn. now rewrite H. Qed.

  Lemma allowed_in_hit C cs d : C d = true -> In d dn -> allowed_in (C :: cs) (Some d) = true.
  Proof.
    intros Cd Hd; cbn.
    assert (E : class_empty C = false).
    { unfold Spec.Pytest.class_empty. apply negb_false_iff, existsb_exists; eauto. }
    rewrite E, Cd. cbn. now apply memb_fdef_in.
  Qed.

  Lemma allowed_in_all_empty cs : (forall C, In C cs -> class_empty C = true) -> allowed_in cs None = true.
  Proof.
    induction cs as [|C cs IH]; intros H; [reflexivity|].
    rewrite allowed_in_skip by (apply H; now left). apply IH; intros; apply H; now right.
  Qed.

  Lemma allowed_in_app_skip cs1 cs2 r :
    (forall C, In C cs1 -> class_empty C = true) -> allowed_in (cs1 ++ cs2) r = allowed_in cs2 r.
  Proof.
    induction cs1 as [|C cs1 IH]; intros H; [reflexivity|]. cbn [app].
    rewrite allowed_in_skip by (apply H; now left). apply IH; intros; apply H; now right.
  Qed.

  (** defs_in is the same-file filter of the cascade *)
  Lemma defs_in_filter F :
    filter (fun d => path_eqb (d_file d) F && true) dn = defs_in s F n.
  Proof. unfold defs_in. apply filter_ext. intros d. now rewrite andb_true_r. Qed.

  Lemma own_last_class F d : own_last s F n = Some d -> same_file_class s F n d = true /\ In d dn.
  Proof.
    intros H. unfold same_file_class. rewrite H. split; [apply fdef_eqb_refl|].
    apply max_by_key_in in H. unfold defs_in in H. apply filter_In in H. tauto.
  Qed.

  Lemma own_last_none_class_empty F : own_last s F n = None -> class_empty (same_file_class s F n) = true.
  Proof. intros H. apply class_empty_true. intros d _. unfold same_file_class. now rewrite H. Qed.

  (** ** the conftest walk.  [imports_complete dir]: when the spec finds a module that
      supplies [n] to the conftest of [dir], the resolver's imported-name set of that
      conftest contains [n] (the soundness direction of the import closure; see
      Properties/C14). *)
  Definition imports_complete (dir : path) : Prop :=
    forall d, In d dn -> import_class dk roots s (conftest_py :: dir) n d = true ->
              is_imported dk roots s n (conftest_py :: dir) = true.

  Notation flt := (fun _ : fdef => true).

  Lemma conftest_step_none_empty dir :
    imports_complete dir ->
    conftest_step dk roots s flt dn n dir = None ->
    class_empty (conftest_class dk roots s dir n) = true.
  Proof.
    intros Himp H. unfold conftest_step in H. rewrite defs_in_filter in H.
    fold (own_last s (conftest_py :: dir) n) in H.
    destruct (own_last s (conftest_py :: dir) n) as [d0|] eqn:Eo; [discriminate|].
    apply class_empty_true. intros d Hd. unfold conftest_class.
    apply orb_false_iff; split.
    - unfold same_file_class. now rewrite Eo.
    - destruct (import_class dk roots s (conftest_py :: dir) n d) eqn:Ei; [|reflexivity]. exfalso.
      pose proof (Himp d Hd Ei) as Him.
      unfold import_class in Ei. apply andb_prop in Ei as [Ek _].
      rewrite Ek, Him in H. cbn in H.
      destruct dn as [|x l]; [destruct Hd|]. cbn in H. discriminate.
  Qed.

  Lemma walk dirs rest :
    (forall dir, In dir dirs -> imports_complete dir) ->
    (forall dir d, stop_at dk roots s flt n dirs = Some (dir, d) ->
                   path_eqb (d_file d) (conftest_py :: dir) = false ->
                   conftest_class dk roots s dir n d = true) ->
    match first_some (conftest_step dk roots s flt dn n) dirs with
    | Some d => allowed_in (map (fun dir => conftest_class dk roots s dir n) dirs ++ rest) (Some d) = true
    | None => forall r, allowed_in (map (fun dir => conftest_class dk roots s dir n) dirs ++ rest) r
                        = allowed_in rest r
    end.
  Proof.
    induction dirs as [|dir dirs IH]; intros Himp HK; cbn [first_some map app]; [reflexivity|].
    destruct (conftest_step dk roots s flt dn n dir) as [d|] eqn:Es.
    - (* the walk stops here *)
      assert (Hstop : stop_at dk roots s flt n (dir :: dirs) = Some (dir, d)).
      { unfold stop_at; cbn [first_some]. now rewrite Es. }
      unfold conftest_step in Es. rewrite defs_in_filter in Es.
      fold (own_last s (conftest_py :: dir) n) in Es.
      destruct (own_last s (conftest_py :: dir) n) as [d0|] eqn:Eo.
      + injection Es as <-. destruct (own_last_class _ _ Eo) as [Hc Hd].
        apply allowed_in_hit; [|exact Hd]. unfold conftest_class. now rewrite Hc.
      + destruct ((disk_file dk (conftest_py :: dir) || in_cache s (conftest_py :: dir))
                  && is_imported dk roots s n (conftest_py :: dir)); [|discriminate].
        apply find_some in Es as [Hd _].
        apply allowed_in_hit; [|exact Hd].
        apply (HK dir d Hstop).
        (* d is not in this conftest: the conftest has no definition of n *)
        apply path_eqb_neq. intros Hf.
        apply max_by_key_none in Eo. unfold defs_in in Eo.
        assert (Hin : In d (filter (fun d0 => path_eqb (d_file d0) (conftest_py :: dir)) dn)).
        { apply filter_In. split; [exact Hd|]. rewrite Hf. apply path_eqb_refl. }
        rewrite Eo in Hin. destruct Hin.
    - (* nothing here: the class is empty, go on *)
      assert (He : class_empty (conftest_class dk roots s dir n) = true).
      { apply conftest_step_none_empty; [apply Himp; now left|exact Es]. }
      assert (IH' := IH (fun d H => Himp d (or_intror H))).
      assert (HK' : forall dir0 d, stop_at dk roots s flt n dirs = Some (dir0, d) ->
                                   path_eqb (d_file d) (conftest_py :: dir0) = false ->
                                   conftest_class dk roots s dir0 n d = true).
      { intros dir0 d Hs. apply HK. unfold stop_at in *; cbn [first_some]. now rewrite Es. }
      specialize (IH' HK').
      destruct (first_some (conftest_step dk roots s flt dn n) dirs) as [d|].
      + now rewrite allowed_in_skip.
      + intros r. rewrite allowed_in_skip by exact He. apply IH'.
  Qed.

  (** ** the whole cascade *)
  Theorem closest_allowed_in F :
    (forall dir, In dir (ancestors (tl F)) -> imports_complete dir) ->
    K_import_provenance dk roots s None F n = false ->
    F <> [] ->
    allowed_in (providers dk roots s F n) (closest dk roots s F n) = true.
  Proof.
    intros Himp HK HF. unfold closest, closest_with, providers.
    destruct dn as [|x0 l0] eqn:Edn.
    { (* the name is unknown: every class is empty *)
      apply allowed_in_all_empty. intros C _. apply class_empty_true. rewrite Edn. intros d []. }
    rewrite <- Edn. rewrite defs_in_filter. fold (own_last s F n).
    destruct (own_last s F n) as [d|] eqn:Eo.
    { destruct (own_last_class _ _ Eo) as [Hc Hd]. now apply allowed_in_hit. }
    rewrite allowed_in_skip by (now apply own_last_none_class_empty).
    destruct F as [|f dir]; [contradiction|]. cbn [tl] in *.
    (* K-freedom, phrased on the walk *)
    assert (HK' : forall dir0 d, stop_at dk roots s flt n (ancestors dir) = Some (dir0, d) ->
                                 path_eqb (d_file d) (conftest_py :: dir0) = false ->
                                 conftest_class dk roots s dir0 n d = true).
    { intros dir0 d Hs Hf. unfold K_import_provenance, import_stop in HK. cbn [tl] in HK.
      assert (Hflt : forall d0 : fdef, (path_eqb (d_file d0) (f :: dir) && true) =
                                       (fun d1 => path_eqb (d_file d1) (f :: dir) && true) d0) by reflexivity.
      rewrite defs_in_filter in HK. fold (own_last s (f :: dir) n) in HK. rewrite Eo in HK.
      rewrite Hs in HK. rewrite Hf in HK. cbn in HK. now apply negb_false_iff in HK. }
    pose proof (walk (ancestors dir) [plugin_class; third_class] Himp HK') as W.
    destruct (first_some (conftest_step dk roots s flt dn n) (ancestors dir)) as [d|]; [exact W|].
    rewrite W.
    (* plugin, then third party *)
    destruct (find (fun d => d_plugin d && negb (d_third d) && true) dn) as [d|] eqn:Ep.
    { apply find_some in Ep as [Hd Hp]. rewrite andb_true_r in Hp. now apply allowed_in_hit. }
    assert (Hpe : class_empty plugin_class = true).
    { apply class_empty_true. intros d Hd. destruct (plugin_class d) eqn:E; [|reflexivity].
      pose proof (find_none _ _ Ep d Hd) as Hn. cbn beta in Hn. unfold plugin_class in E.
      rewrite E in Hn. discriminate. }
    rewrite allowed_in_skip by exact Hpe.
    destruct (find (fun d => d_third d && true) dn) as [d|] eqn:Et.
    { apply find_some in Et as [Hd Ht]. rewrite andb_true_r in Ht. now apply allowed_in_hit. }
    assert (Hte : class_empty third_class = true).
    { apply class_empty_true. intros d Hd. destruct (third_class d) eqn:E; [|reflexivity].
      pose proof (find_none _ _ Et d Hd) as Hn. cbn beta in Hn. unfold third_class in E.
      rewrite E in Hn. discriminate. }
    rewrite allowed_in_skip by exact Hte. reflexivity.
  Qed.
End Cascade.

(** ** consequences phrased on [allowed] / [visible] *)
Section Allowed.
  Variable dk : disk.
  Variable roots : list path.
  Variable s : index.
  Variable n : string.

  Lemma allowed_in_ext cs cs' r :
    Forall2 (fun C C' => forall d, C d = C' d) cs cs' -> allowed_in s n cs r = allowed_in s n cs' r.
  Proof.
    induction 1 as [|C C' cs cs' HC _ IH]; [reflexivity|]. cbn.
    assert (E : class_empty s n C = class_empty s n C').
    { unfold class_empty. f_equal. induction (defs_named s n) as [|x l IHl]; cbn; [reflexivity|].
      now rewrite HC, IHl. }
    rewrite E, IH. destruct (class_empty s n C'); [reflexivity|]. destruct r; [|reflexivity]. now rewrite HC.
  Qed.

  Lemma without_none cs : Forall2 (fun C C' => forall d : fdef, C d = C' d) (map (without None) cs) cs.
  Proof. induction cs as [|C cs IH]; cbn; constructor; [|exact IH]. intros d. unfold without. apply andb_true_r. Qed.

  Lemma allowed_in_some_member cs d :
    allowed_in s n cs (Some d) = true -> exists C, In C cs /\ C d = true /\ In d (defs_named s n).
  Proof.
    induction cs as [|C cs IH]; cbn; [discriminate|].
    destruct (class_empty s n C).
    - intros H. destruct (IH H) as [C' [Hi Hc]]. exists C'; split; [now right|exact Hc].
    - intros H. apply andb_prop in H as [Hc Hm]. exists C. split; [now left|]. split; [exact Hc|].
      now apply memb_fdef_in.
  Qed.

  Lemma allowed_in_none_all_empty cs :
    allowed_in s n cs None = true -> forall C, In C cs -> class_empty s n C = true.
  Proof.
    induction cs as [|C cs IH]; cbn; [intros _ C []|].
    destruct (class_empty s n C) eqn:E; [|discriminate].
    intros H C' [<-|Hi]; [exact E|now apply IH].
  Qed.

  Theorem closest_allowed F :
    F <> [] ->
    (forall dir, In dir (ancestors (tl F)) -> imports_complete dk roots s n dir) ->
    K_import_provenance dk roots s None F n = false ->
    allowed dk roots s F n (closest dk roots s F n) = true.
  Proof.
    intros HF Himp HK. unfold allowed, allowed_ex. apply orb_true_iff; left.
    rewrite (allowed_in_ext _ _ _ (without_none _)). now apply closest_allowed_in.
  Qed.

  Theorem closest_visible F d :
    F <> [] ->
    (forall dir, In dir (ancestors (tl F)) -> imports_complete dk roots s n dir) ->
    K_import_provenance dk roots s None F n = false ->
    closest dk roots s F n = Some d -> visible dk roots s F n d = true /\ In d (defs_named s n).
  Proof.
    intros HF Himp HK E. pose proof (closest_allowed_in dk roots s n F Himp HK HF) as A. rewrite E in A.
    apply allowed_in_some_member in A as [C [Hi [Hc Hd]]]. split; [|exact Hd].
    unfold visible. apply orb_true_iff; left. apply existsb_exists. eauto.
  Qed.

  Theorem closest_none_invisible F d :
    F <> [] ->
    (forall dir, In dir (ancestors (tl F)) -> imports_complete dk roots s n dir) ->
    K_import_provenance dk roots s None F n = false ->
    closest dk roots s F n = None -> In d (defs_named s n) ->
    existsb (fun C => C d) (providers dk roots s F n) = false.
  Proof.
    intros HF Himp HK E Hd. pose proof (closest_allowed_in dk roots s n F Himp HK HF) as A. rewrite E in A.
    pose proof (allowed_in_none_all_empty _ A) as Hall.
    destruct (existsb (fun C => C d) (providers dk roots s F n)) eqn:X; [|reflexivity].
    apply existsb_exists in X as [C [Hi Hc]]. specialize (Hall C Hi).
    pose proof (proj1 (class_empty_true s n C) Hall d Hd) as Hf. rewrite Hf in Hc. discriminate.
  Qed.
End Allowed.
