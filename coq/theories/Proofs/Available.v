(** * Proofs/Available: the per-file view (completion, inlay hints) — one entry per name. *)
From PLS Require Import Check.C05 Proofs.Basics.
From Coq Require Import Permutation.

Definition ND (acc : list fdef) : Prop := NoDup (map d_name acc).

Lemma ND_snoc acc d :
  ND acc -> existsb (fun x => String.eqb (d_name x) (d_name d)) acc = false -> ND (acc ++ [d]).
Proof.
  unfold ND. intros H E. rewrite map_app. cbn. apply NoDup_app_intro; [exact H|repeat constructor; intros []|].
  intros x Hx [<-|[]]. apply in_map_iff in Hx as [y [Ey Hy]].
  assert (existsb (fun x => String.eqb (d_name x) (d_name d)) acc = true).
  { apply existsb_exists. exists y. split; [exact Hy|]. rewrite Ey. apply String.eqb_refl. }
  congruence.
Qed.

Lemma defs_named_name s n d : In d (defs_named s n) -> d_name d = n.
Proof. unfold defs_named. intros H. apply filter_In in H as [_ E]. now apply String.eqb_eq. Qed.

Section Avail.
  Variable dk : disk.
  Variable roots : list path.
  Variable s : index.

  Lemma fold_pick_ND (pick : string -> option fdef) names acc :
    (forall n d, pick n = Some d -> d_name d = n) ->
    ND acc ->
    ND (fold_left (fun acc n =>
                     if existsb (fun d => String.eqb (d_name d) n) acc then acc else
                     match pick n with Some d => acc ++ [d] | None => acc end) names acc).
  Proof.
    intros Hp. revert acc. induction names as [|n names IH]; intros acc H; cbn; [exact H|].
    apply IH. destruct (existsb (fun d => String.eqb (d_name d) n) acc) eqn:E; [exact H|].
    destruct (pick n) as [d|] eqn:P; [|exact H].
    apply ND_snoc; [exact H|]. now rewrite (Hp n d P).
  Qed.

  Lemma add_first_ND p acc : ND acc -> ND (add_first s p acc).
  Proof.
    unfold add_first. apply (fold_pick_ND (fun n => find p (defs_named s n))).
    intros n d H. apply find_some in H as [H _]. eapply defs_named_name; eauto.
  Qed.

  Lemma add_last_ND m acc : ND acc -> ND (add_last s m acc).
  Proof.
    unfold add_last.
    apply (fold_pick_ND (fun n => max_by_key d_line (filter (fun d => path_eqb (d_file d) m) (defs_named s n)))).
    intros n d H. apply max_by_key_in in H. apply filter_In in H as [H _]. eapply defs_named_name; eauto.
  Qed.

  Lemma add_imported_ND c acc : ND acc -> ND (add_imported dk roots s c acc).
  Proof.
    unfold add_imported. destruct (in_cache s c); [|auto].
    intros H.
    assert (G : forall names acc0, ND acc0 ->
              ND (fold_left (fun acc1 n =>
                               if existsb (fun d => String.eqb (d_name d) n) acc1 then acc1 else
                               match defs_named s n with d :: _ => acc1 ++ [d] | [] => acc1 end) names acc0)).
    { induction names as [|n names IH]; intros acc0 H0; cbn; [exact H0|]. apply IH.
      destruct (existsb (fun d => String.eqb (d_name d) n) acc0) eqn:E; [exact H0|].
      destruct (defs_named s n) as [|d l] eqn:Ed; [exact H0|].
      apply ND_snoc; [exact H0|]. assert (d_name d = n) as ->; [|exact E].
      apply (defs_named_name s). rewrite Ed. now left. }
    apply G, H.
  Qed.

  Lemma insert_sorted_perm {A} (leb : A -> A -> bool) x l : Permutation (insert_sorted leb x l) (x :: l).
  Proof.
    induction l as [|y l IH]; cbn; [reflexivity|]. destruct (leb x y); [reflexivity|].
    rewrite IH. apply perm_swap.
  Qed.

  Lemma isort_perm {A} (leb : A -> A -> bool) l : Permutation (isort leb l) l.
  Proof.
    induction l as [|x l IH]; cbn; [reflexivity|]. unfold isort in *. cbn.
    rewrite insert_sorted_perm. now constructor.
  Qed.

  Theorem available_names_nodup F : NoDup (map d_name (available_cold dk roots s F)).
  Proof.
    unfold available_cold.
    eapply Permutation_NoDup; [apply Permutation_map; symmetry; apply isort_perm|].
    apply add_first_ND, add_first_ND.
    destruct F as [|f dir]; [apply add_last_ND; constructor|].
    assert (G : forall dirs acc, ND acc ->
              ND (fold_left (fun acc dir => let c := conftest_py :: dir in add_imported dk roots s c (add_last s c acc)) dirs acc)).
    { induction dirs as [|d dirs IH]; intros acc H; cbn; [exact H|]. apply IH, add_imported_ND, add_last_ND, H. }
    apply G, add_last_ND. constructor.
  Qed.

  (** every entry is a definition known to the index *)
  Theorem available_entries_known F d : In d (available_cold dk roots s F) -> In d (defs s).
  Proof.
    unfold available_cold. intros H. apply (Permutation_in _ (isort_perm _ _)) in H. revert H.
    assert (K : forall acc : list fdef, (forall x, In x acc -> In x (defs s)) -> forall p,
              forall x, In x (add_first s p acc) -> In x (defs s)).
    { intros acc Ha p. unfold add_first. revert acc Ha. induction (def_names s) as [|n names IH]; intros acc Ha x; cbn; [apply Ha|].
      apply IH. destruct (existsb _ acc); [exact Ha|]. destruct (find p (defs_named s n)) as [d0|] eqn:E; [|exact Ha].
      intros y Hy. apply in_app_or in Hy as [Hy|[<-|[]]]; [now apply Ha|].
      apply find_some in E as [E _]. unfold defs_named in E. apply filter_In in E. tauto. }
    assert (KL : forall m (acc : list fdef), (forall x, In x acc -> In x (defs s)) ->
              forall x, In x (add_last s m acc) -> In x (defs s)).
    { intros m acc Ha. unfold add_last. revert acc Ha. induction (def_names s) as [|n names IH]; intros acc Ha x; cbn; [apply Ha|].
      apply IH. destruct (existsb _ acc); [exact Ha|].
      destruct (max_by_key d_line (filter (fun d0 => path_eqb (d_file d0) m) (defs_named s n))) as [d0|] eqn:E; [|exact Ha].
      intros y Hy. apply in_app_or in Hy as [Hy|[<-|[]]]; [now apply Ha|].
      apply max_by_key_in in E. apply filter_In in E as [E _]. unfold defs_named in E. apply filter_In in E. tauto. }
    assert (KI : forall c (acc : list fdef), (forall x, In x acc -> In x (defs s)) ->
              forall x, In x (add_imported dk roots s c acc) -> In x (defs s)).
    { intros c acc Ha. unfold add_imported. destruct (in_cache s c); [|exact Ha].
      revert acc Ha. induction (dedup String.eqb (imported dk roots s c)) as [|n names IH]; intros acc Ha x; cbn; [apply Ha|].
      apply IH. destruct (existsb _ acc); [exact Ha|].
      destruct (defs_named s n) as [|d0 l] eqn:E; [exact Ha|].
      intros y Hy. apply in_app_or in Hy as [Hy|[<-|[]]]; [now apply Ha|].
      assert (In d0 (defs_named s n)) as Hd by (rewrite E; now left). unfold defs_named in Hd. apply filter_In in Hd. tauto. }
    apply K. apply K.
    destruct F as [|f dir]; [apply KL; intros x []|].
    assert (G : forall dirs (acc : list fdef), (forall x, In x acc -> In x (defs s)) ->
              forall x, In x (fold_left (fun acc dir => let c := conftest_py :: dir in add_imported dk roots s c (add_last s c acc)) dirs acc) -> In x (defs s)).
    { induction dirs as [|d0 dirs IH]; intros acc Ha; cbn; [exact Ha|]. apply IH. apply KI, KL, Ha. }
    apply G. apply KL. intros x [].
  Qed.
End Avail.
