(** * The per-file view (completion, inlay hints) of two indexes that hold the same per-file
    blocks of definitions in different registration orders is the same LIST, under the same
    exclusions as resolution (C08): it is sorted by name, has one entry per name, and each
    entry is what go-to-definition selects. *)
From PLS Require Import Check.C07 Proofs.Basics Proofs.Available Proofs.Agree Proofs.Order Proofs.SortUnique Proofs.WarmCold.

Section ViewOrder.
  Variable dk : disk.
  Variable roots : list path.
  Variables s1 s2 : index.

  (** what makes resolution of [n] from [F] insensitive to registration order (the
      hypotheses of [closest_with_same_blocks] for the all-accepting filter) *)
  Definition order_insensitive (F : path) (n : string) : Prop :=
    (forall G, defs_in s1 G n = defs_in s2 G n) /\
    (forall dir, In dir (ancestors (tl F)) ->
                 is_imported dk roots s1 n (conftest_py :: dir) = false /\
                 is_imported dk roots s2 n (conftest_py :: dir) = false) /\
    (exists Gp, forall d, (In d (defs_named s1 n) \/ In d (defs_named s2 n)) -> d_plugin d && negb (d_third d) && true = true -> d_file d = Gp) /\
    (exists Gt, forall d, (In d (defs_named s1 n) \/ In d (defs_named s2 n)) -> d_third d && true = true -> d_file d = Gt).

  Theorem available_same_blocks f dir :
    conftests_known dk s1 (f :: dir) -> conftests_known dk s2 (f :: dir) ->
    (forall n, order_insensitive (f :: dir) n) ->
    available_cold dk roots s1 (f :: dir) = available_cold dk roots s2 (f :: dir).
  Proof.
    intros K1 K2 H.
    apply views_equal; [apply available_names_nodup|apply available_names_nodup
                         |apply available_cold_sorted|apply available_cold_sorted|].
    intros n. rewrite (available_agrees_with_goto dk roots s1 f dir n K1), (available_agrees_with_goto dk roots s2 f dir n K2).
    destruct (H n) as (Hb & Hi & [Gp Hp] & [Gt Ht]).
    unfold closest. now apply (closest_with_same_blocks dk roots s1 s2 n Hb (fun _ => true) (f :: dir) Gp Gt).
  Qed.
End ViewOrder.
