//! H1 library harness: interprets JSON operation lists against a real
//! `FixtureDatabase` built from /repo's current working tree and prints the
//! canonicalised observations as JSON.
//!
//! usage: h1 <cases.json> <out.json>
//!   cases.json = [ {"id": .., "ops": [ {...}, ... ]}, ... ]
//!   out.json   = [ {"id": .., "obs": [ <json>, ... ]}, ... ]   (one obs per op)

use pytest_language_server::fixtures::verif_text;
use pytest_language_server::{
    CompletionContext, Config, FixtureDatabase, FixtureDefinition, FixtureScope, FixtureUsage,
};
use serde_json::{json, Value};
use std::collections::HashSet;
use std::panic::{catch_unwind, AssertUnwindSafe};
use std::path::{Path, PathBuf};
use std::sync::mpsc;
use std::time::Duration;

fn scope_str(s: FixtureScope) -> &'static str {
    s.as_str()
}

fn p2s(p: &Path) -> String {
    p.to_string_lossy().to_string()
}

fn def_json(d: &FixtureDefinition) -> Value {
    json!({
        "name": d.name, "path": p2s(&d.file_path), "line": d.line, "end_line": d.end_line,
        "start": d.start_char, "end": d.end_char, "doc": d.docstring, "ret": d.return_type,
        "third": d.is_third_party, "plugin": d.is_plugin, "deps": d.dependencies,
        "scope": scope_str(d.scope), "yield": d.yield_line, "autouse": d.autouse,
    })
}

fn optdef_json(d: &Option<FixtureDefinition>) -> Value {
    match d {
        Some(d) => def_json(d),
        None => Value::Null,
    }
}

fn usage_json(u: &FixtureUsage) -> Value {
    json!({"name": u.name, "path": p2s(&u.file_path), "line": u.line, "start": u.start_char, "end": u.end_char})
}

fn ctx_json(c: &Option<CompletionContext>) -> Value {
    match c {
        None => Value::Null,
        Some(CompletionContext::FunctionSignature {
            function_name,
            function_line,
            is_fixture,
            declared_params,
            fixture_scope,
        }) => json!({"kind": "signature", "function": function_name, "line": function_line,
            "is_fixture": is_fixture, "params": declared_params,
            "scope": fixture_scope.map(scope_str)}),
        Some(CompletionContext::FunctionBody {
            function_name,
            function_line,
            is_fixture,
            declared_params,
            fixture_scope,
        }) => json!({"kind": "body", "function": function_name, "line": function_line,
            "is_fixture": is_fixture, "params": declared_params,
            "scope": fixture_scope.map(scope_str)}),
        Some(CompletionContext::UsefixturesDecorator) => json!({"kind": "usefixtures"}),
        Some(CompletionContext::ParametrizeIndirect) => json!({"kind": "indirect"}),
    }
}

fn s<'a>(op: &'a Value, k: &str) -> &'a str {
    op.get(k).and_then(|v| v.as_str()).unwrap_or("")
}
fn n(op: &Value, k: &str) -> u64 {
    op.get(k).and_then(|v| v.as_u64()).unwrap_or(0)
}

fn sorted_strs<I: IntoIterator<Item = String>>(it: I) -> Vec<String> {
    let mut v: Vec<String> = it.into_iter().collect();
    v.sort();
    v
}

fn dump(db: &FixtureDatabase) -> Value {
    let mut defs: Vec<(String, Value)> = db
        .definitions
        .iter()
        .map(|e| {
            (
                e.key().clone(),
                Value::Array(e.value().iter().map(def_json).collect()),
            )
        })
        .collect();
    defs.sort_by(|a, b| a.0.cmp(&b.0));
    let mut fdefs: Vec<(String, Value)> = db
        .file_definitions
        .iter()
        .map(|e| {
            (
                p2s(e.key()),
                json!(sorted_strs(e.value().iter().cloned())),
            )
        })
        .collect();
    fdefs.sort_by(|a, b| a.0.cmp(&b.0));
    let mut usages: Vec<(String, Value)> = db
        .usages
        .iter()
        .map(|e| {
            (
                p2s(e.key()),
                Value::Array(e.value().iter().map(usage_json).collect()),
            )
        })
        .collect();
    usages.sort_by(|a, b| a.0.cmp(&b.0));
    let mut uby: Vec<(String, Value)> = db
        .usage_by_fixture
        .iter()
        .map(|e| {
            (
                e.key().clone(),
                Value::Array(
                    e.value()
                        .iter()
                        .map(|(p, u)| json!({"key_path": p2s(p), "usage": usage_json(u)}))
                        .collect(),
                ),
            )
        })
        .collect();
    uby.sort_by(|a, b| a.0.cmp(&b.0));
    let mut undecl: Vec<(String, Value)> = db
        .undeclared_fixtures
        .iter()
        .map(|e| {
            (
                p2s(e.key()),
                Value::Array(
                    e.value()
                        .iter()
                        .map(|u| {
                            json!({"name": u.name, "path": p2s(&u.file_path), "line": u.line,
                        "start": u.start_char, "end": u.end_char, "function": u.function_name,
                        "function_line": u.function_line})
                        })
                        .collect(),
                ),
            )
        })
        .collect();
    undecl.sort_by(|a, b| a.0.cmp(&b.0));
    let mut imports: Vec<(String, Value)> = db
        .imports
        .iter()
        .map(|e| {
            (
                p2s(e.key()),
                json!(sorted_strs(e.value().iter().cloned())),
            )
        })
        .collect();
    imports.sort_by(|a, b| a.0.cmp(&b.0));
    let mut fcache: Vec<(String, String)> = db
        .file_cache
        .iter()
        .map(|e| (p2s(e.key()), e.value().as_ref().clone()))
        .collect();
    fcache.sort();
    let plugin_files = sorted_strs(db.plugin_fixture_files.iter().map(|e| p2s(e.key())));
    let to_obj = |v: Vec<(String, Value)>| -> Value {
        Value::Array(v.into_iter().map(|(k, v)| json!([k, v])).collect())
    };
    json!({
        "definitions": to_obj(defs),
        "file_definitions": to_obj(fdefs),
        "usages": to_obj(usages),
        "usage_by_fixture": to_obj(uby),
        "undeclared": to_obj(undecl),
        "imports": to_obj(imports),
        "file_cache": fcache.into_iter().map(|(k, v)| json!([k, v])).collect::<Vec<_>>(),
        "plugin_files": plugin_files,
        "version": db.definitions_version.load(std::sync::atomic::Ordering::SeqCst),
    })
}

fn run_op(db: &mut FixtureDatabase, op: &Value) -> Value {
    let kind = s(op, "op");
    let path = PathBuf::from(s(op, "path"));
    match kind {
        "new_db" => {
            *db = FixtureDatabase::new();
            Value::Null
        }
        "analyze" => {
            db.analyze_file(path, s(op, "text"));
            Value::Null
        }
        "analyze_fresh" => {
            db.verif_analyze_file_fresh(path, s(op, "text"));
            Value::Null
        }
        "close" => {
            db.cleanup_file_cache(&path);
            Value::Null
        }
        "evict" => {
            db.verif_evict_cache_if_needed();
            Value::Null
        }
        "mark_plugin" => {
            db.plugin_fixture_files.insert(path, ());
            Value::Null
        }
        "set_workspace_root" => {
            *db.workspace_root.lock().unwrap() = Some(path);
            Value::Null
        }
        "scan" => {
            let pats: Vec<glob::Pattern> = op
                .get("excludes")
                .and_then(|v| v.as_array())
                .map(|a| {
                    a.iter()
                        .filter_map(|x| x.as_str())
                        .filter_map(|x| glob::Pattern::new(x).ok())
                        .collect()
                })
                .unwrap_or_default();
            db.scan_workspace_with_excludes(&path, &pats);
            Value::Null
        }
        "goto" => optdef_json(&db.find_fixture_definition(
            &path,
            n(op, "line") as u32,
            n(op, "col") as u32,
        )),
        "goto_or_def" => optdef_json(&db.find_fixture_or_definition_at_position(
            &path,
            n(op, "line") as u32,
            n(op, "col") as u32,
        )),
        "name_at" => json!(db.find_fixture_at_position(
            &path,
            n(op, "line") as u32,
            n(op, "col") as u32
        )),
        "def_at_line" => optdef_json(&db.get_definition_at_line(
            &path,
            n(op, "line") as usize,
            s(op, "name"),
        )),
        "refs" => {
            // references of the definition identified by (name, path, 1-based line)
            match db.get_definition_at_line(&path, n(op, "line") as usize, s(op, "name")) {
                None => json!({"nodef": true}),
                Some(d) => {
                    let r = db.find_references_for_definition(&d);
                    json!({"def": def_json(&d), "refs": r.iter().map(usage_json).collect::<Vec<_>>()})
                }
            }
        }
        "refsx" => {
            // references of a definition together with go-to-definition on every recorded
            // usage of that name (the two sides of C04), from the implementation's own records
            match db.get_definition_at_line(&path, n(op, "line") as usize, s(op, "name")) {
                None => json!({"nodef": true}),
                Some(d) => {
                    let r = db.find_references_for_definition(&d);
                    let us: Vec<FixtureUsage> = db
                        .usage_by_fixture
                        .get(&d.name)
                        .map(|e| e.value().iter().map(|(_, u)| u.clone()).collect())
                        .unwrap_or_default();
                    let gotos: Vec<Value> = us
                        .iter()
                        .map(|u| {
                            let g = db.find_fixture_definition(
                                &u.file_path,
                                (u.line as u32).saturating_sub(1),
                                u.start_char as u32,
                            );
                            json!({"usage": usage_json(u), "ans": optdef_json(&g)})
                        })
                        .collect();
                    json!({"def": def_json(&d), "refs": r.iter().map(usage_json).collect::<Vec<_>>(), "gotos": gotos})
                }
            }
        }
        "par_analyze" => {
            // C09: several threads, each analysing its own list of (distinct) files on the SAME
            // database, started together; the quiescent index is dumped
            let lists: Vec<Vec<Value>> = op
                .get("threads")
                .and_then(|v| v.as_array())
                .map(|a| a.iter().map(|t| t.as_array().cloned().unwrap_or_default()).collect())
                .unwrap_or_default();
            let barrier = std::sync::Barrier::new(lists.len());
            let dbr: &FixtureDatabase = db;
            std::thread::scope(|sc| {
                for l in &lists {
                    let b = &barrier;
                    sc.spawn(move || {
                        b.wait();
                        for o in l {
                            let p = PathBuf::from(s(o, "path"));
                            if s(o, "op") == "analyze_fresh" {
                                dbr.verif_analyze_file_fresh(p, s(o, "text"));
                            } else {
                                dbr.analyze_file(p, s(o, "text"));
                            }
                        }
                    });
                }
            });
            dump(db)
        }
        "mark" => {
            if let Ok(path) = std::env::var("DASHMAP_OPLOG") {
                use std::io::Write;
                if let Ok(mut f) = std::fs::OpenOptions::new().create(true).append(true).open(path) {
                    let _ = writeln!(f, "MARK {}", s(op, "text"));
                }
            }
            Value::Null
        }
        "cli" => {
            // what the CLI computes (unused list, per-(file, name) counts) next to the
            // server's reference list of EVERY definition (C20)
            let unused: Vec<Value> = db
                .get_unused_fixtures()
                .iter()
                .map(|(p, n)| json!([p2s(p), n]))
                .collect();
            let counts: Vec<Value> = db
                .verif_definition_usage_counts()
                .iter()
                .map(|((p, n), c)| json!([p2s(p), n, c]))
                .collect();
            let mut defs: Vec<FixtureDefinition> = Vec::new();
            for e in db.definitions.iter() {
                defs.extend(e.value().iter().cloned());
            }
            defs.sort_by(|a, b| (&a.file_path, a.line, &a.name).cmp(&(&b.file_path, b.line, &b.name)));
            let refs: Vec<Value> = defs
                .iter()
                .map(|d| {
                    let r = db.find_references_for_definition(d);
                    json!({"def": def_json(d), "refs": r.iter().map(usage_json).collect::<Vec<_>>()})
                })
                .collect();
            json!({"unused": unused, "counts": counts, "refs": refs})
        }
        "agree" => {
            // the per-file view next to direct resolution, for every known name (C05)
            let av = db.get_available_fixtures(&path);
            let mut names: Vec<String> = db.definitions.iter().map(|e| e.key().clone()).collect();
            names.sort();
            let per: Vec<Value> = names
                .iter()
                .map(|nm| {
                    json!({"name": nm,
                           "closest": optdef_json(&db.verif_find_closest_definition(&path, nm)),
                           "rff": optdef_json(&db.resolve_fixture_for_file(&path, nm))})
                })
                .collect();
            json!({"available": av.iter().map(def_json).collect::<Vec<_>>(), "names": per})
        }
        "both" => {
            // C06: the long-lived database next to one built fresh from the given ops
            let queries: Vec<Value> = op.get("queries").and_then(|v| v.as_array()).cloned().unwrap_or_default();
            let answer = |d: &mut FixtureDatabase| -> Value {
                let answers: Vec<Value> = queries.iter().map(|q| run_op(d, q)).collect();
                json!({"dump": dump(d), "answers": answers})
            };
            let live = answer(db);
            let mut fresh = FixtureDatabase::new();
            if let Some(ops) = op.get("fresh_ops").and_then(|v| v.as_array()) {
                for o in ops {
                    run_op(&mut fresh, o);
                }
            }
            let fr = answer(&mut fresh);
            json!({"live": live, "fresh": fr})
        }
        "multi" => {
            let queries: Vec<Value> = op.get("queries").and_then(|v| v.as_array()).cloned().unwrap_or_default();
            Value::Array(queries.iter().map(|q| run_op(db, q)).collect())
        }
        "cold" => {
            // C07: the same queries on the live (warm) database and on a database that
            // replays the state-changing operations and is asked only now
            let queries: Vec<Value> = op.get("queries").and_then(|v| v.as_array()).cloned().unwrap_or_default();
            let warm: Vec<Value> = queries.iter().map(|q| run_op(db, q)).collect();
            let mut fresh = FixtureDatabase::new();
            if let Some(ops) = op.get("replay").and_then(|v| v.as_array()) {
                for o in ops {
                    run_op(&mut fresh, o);
                }
            }
            // each cold query gets its own cold database state: re-create for every query
            let mut cold = Vec::new();
            for q in &queries {
                let mut f = FixtureDatabase::new();
                if let Some(ops) = op.get("replay").and_then(|v| v.as_array()) {
                    for o in ops {
                        run_op(&mut f, o);
                    }
                }
                cold.push(run_op(&mut f, q));
            }
            drop(fresh);
            json!({"warm": warm, "cold": cold})
        }
        "refs_by_name" => {
            let r = db.find_fixture_references(s(op, "name"));
            let mut v: Vec<Value> = r.iter().map(usage_json).collect();
            v.sort_by_key(|x| x.to_string());
            Value::Array(v)
        }
        "closest" => optdef_json(&db.verif_find_closest_definition(&path, s(op, "name"))),
        "closest_excluding" => {
            let ex = db.get_definition_at_line(
                &PathBuf::from(s(op, "ex_path")),
                n(op, "ex_line") as usize,
                s(op, "name"),
            );
            optdef_json(&db.verif_find_closest_definition_excluding(
                &path,
                s(op, "name"),
                ex.as_ref(),
            ))
        }
        "available" => {
            let v = db.get_available_fixtures(&path);
            Value::Array(v.iter().map(def_json).collect())
        }
        "resolve_for_file" => optdef_json(&db.resolve_fixture_for_file(&path, s(op, "name"))),
        "is_available" => json!(db.verif_is_available_fixture(&path, s(op, "name"))),
        "imported" => {
            let mut visited = HashSet::new();
            let r = db.get_imported_fixtures(&path, &mut visited);
            json!(sorted_strs(r.into_iter()))
        }
        "is_imported" => json!(db.is_fixture_imported_in_file(s(op, "name"), &path)),
        "resolve_module" => json!(db
            .verif_resolve_module_to_file(s(op, "module"), &path)
            .map(|p| p2s(&p))),
        "cycles" => {
            let c = db.detect_fixture_cycles();
            Value::Array(
                c.iter()
                    .map(|c| json!({"path": c.cycle_path, "fixture": def_json(&c.fixture)}))
                    .collect(),
            )
        }
        "cycles_in_file" => {
            let c = db.detect_fixture_cycles_in_file(&path);
            Value::Array(
                c.iter()
                    .map(|c| json!({"path": c.cycle_path, "fixture": def_json(&c.fixture)}))
                    .collect(),
            )
        }
        "mismatches" => {
            let m = db.detect_scope_mismatches_in_file(&path);
            Value::Array(
                m.iter()
                    .map(|m| json!({"fixture": def_json(&m.fixture), "dependency": def_json(&m.dependency)}))
                    .collect(),
            )
        }
        "undeclared" => {
            let u = db.get_undeclared_fixtures(&path);
            Value::Array(
                u.iter()
                    .map(|u| {
                        json!({"name": u.name, "line": u.line, "start": u.start_char, "end": u.end_char,
                    "function": u.function_name, "function_line": u.function_line})
                    })
                    .collect(),
            )
        }
        "completion_context" => ctx_json(&db.get_completion_context(
            &path,
            n(op, "line") as u32,
            n(op, "col") as u32,
        )),
        "param_insertion" => match db.get_function_param_insertion_info(&path, n(op, "line") as usize)
        {
            None => Value::Null,
            Some(i) => json!({"line": i.line, "char": i.char_pos, "needs_comma": i.needs_comma}),
        },
        "containing_function" => json!(db.find_containing_function(&path, n(op, "line") as usize)),
        "dump" => dump(db),
        "version" => json!(db
            .definitions_version
            .load(std::sync::atomic::Ordering::SeqCst)),
        "file_cache_keys" => json!(sorted_strs(db.file_cache.iter().map(|e| p2s(e.key())))),
        // ---- pure text functions
        "format_docstring" => json!(verif_text::format_docstring(s(op, "text").to_string())),
        "extract_word" => json!(verif_text::extract_word_at_position(
            s(op, "text"),
            n(op, "col") as usize
        )),
        "find_name_pos" => {
            let (a, b) = verif_text::find_function_name_position(
                s(op, "text"),
                n(op, "line") as usize,
                s(op, "name"),
            );
            json!([a, b])
        }
        "param_has_annotation" => {
            let text = s(op, "text");
            let lines: Vec<&str> = text.lines().collect();
            json!(verif_text::parameter_has_annotation(
                &lines,
                n(op, "line") as usize,
                n(op, "col") as usize
            ))
        }
        "line_index" => json!(FixtureDatabase::verif_build_line_index(s(op, "text"))),
        "line_of_offset" => {
            let idx = FixtureDatabase::verif_build_line_index(s(op, "text"));
            let off = n(op, "offset") as usize;
            json!([
                db.verif_get_line_from_offset(off, &idx),
                db.verif_get_char_position_from_offset(off, &idx)
            ])
        }
        "should_skip_dir" => json!(FixtureDatabase::verif_should_skip_directory(s(op, "name"))),
        "parse_entry_points" => json!(FixtureDatabase::verif_parse_pytest11_entry_points(s(
            op, "text"
        ))),
        "dist_info_name" => json!(FixtureDatabase::verif_extract_package_name_from_dist_info(s(
            op, "name"
        ))),
        "config_parse" => {
            let c = Config::verif_parse(s(op, "text"), Path::new("pyproject.toml"));
            json!({"exclude": c.exclude.iter().map(|p| p.as_str().to_string()).collect::<Vec<_>>(),
                   "disabled": c.disabled_diagnostics, "fixture_paths": c.fixture_paths,
                   "skip_plugins": c.skip_plugins})
        }
        "scope_parse" => json!(FixtureScope::parse(s(op, "text")).map(scope_str)),
        "glob_valid" => json!(op
            .get("patterns")
            .and_then(|v| v.as_array())
            .map(|a| a
                .iter()
                .map(|x| x.as_str().is_some_and(|x| glob::Pattern::new(x).is_ok()))
                .collect::<Vec<bool>>())
            .unwrap_or_default()),
        // the real glob crate as an oracle: which of the paths does some pattern match
        "glob_matches" => {
            let pats: Vec<glob::Pattern> = op
                .get("patterns")
                .and_then(|v| v.as_array())
                .map(|a| {
                    a.iter()
                        .filter_map(|x| x.as_str())
                        .filter_map(|x| glob::Pattern::new(x).ok())
                        .collect()
                })
                .unwrap_or_default();
            let paths: Vec<&str> = op
                .get("paths")
                .and_then(|v| v.as_array())
                .map(|a| a.iter().filter_map(|x| x.as_str()).collect())
                .unwrap_or_default();
            json!(paths
                .iter()
                .map(|p| pats.iter().any(|q| q.matches(p)))
                .collect::<Vec<bool>>())
        }
        // Rust's own Unicode tables for the characters of a text (oracle for the model)
        "char_classes" => {
            let t = s(op, "text");
            json!({"ws": t.chars().filter(|c| c.is_whitespace()).map(|c| c as u32).collect::<Vec<_>>(),
                   "alnum": t.chars().filter(|c| c.is_alphanumeric()).map(|c| c as u32).collect::<Vec<_>>()})
        }
        other => json!({"unknown_op": other}),
    }
}

fn run_case(case: &Value) -> Value {
    let mut db = FixtureDatabase::new();
    let mut obs = Vec::new();
    if let Some(ops) = case.get("ops").and_then(|v| v.as_array()) {
        for op in ops {
            let r = catch_unwind(AssertUnwindSafe(|| run_op(&mut db, op)));
            match r {
                Ok(v) => obs.push(v),
                Err(e) => {
                    let msg = if let Some(s) = e.downcast_ref::<String>() {
                        s.clone()
                    } else if let Some(s) = e.downcast_ref::<&str>() {
                        s.to_string()
                    } else {
                        "?".to_string()
                    };
                    obs.push(json!({"panic": msg}));
                }
            }
        }
    }
    json!({"id": case.get("id").cloned().unwrap_or(Value::Null), "obs": obs})
}

fn main() {
    let args: Vec<String> = std::env::args().collect();
    if args.len() < 3 {
        eprintln!("usage: h1 <cases.json> <out.json>");
        std::process::exit(2);
    }
    std::panic::set_hook(Box::new(|_| {}));
    let text = std::fs::read_to_string(&args[1]).expect("read cases");
    let cases: Value = serde_json::from_str(&text).expect("parse cases");
    let timeout_s: u64 = std::env::var("H1_CASE_TIMEOUT_S")
        .ok()
        .and_then(|v| v.parse().ok())
        .unwrap_or(60);
    let mut out = Vec::new();
    for case in cases.as_array().expect("array of cases") {
        let (tx, rx) = mpsc::channel();
        let c = case.clone();
        std::thread::Builder::new()
            .stack_size(64 << 20)
            .spawn(move || {
                let r = run_case(&c);
                let _ = tx.send(r);
            })
            .expect("spawn");
        match rx.recv_timeout(Duration::from_secs(timeout_s)) {
            Ok(v) => out.push(v),
            Err(_) => {
                out.push(json!({"id": case.get("id").cloned().unwrap_or(Value::Null), "hang": true}));
                // the stuck thread cannot be reclaimed; flush what we have and stop
                std::fs::write(&args[2], serde_json::to_string(&Value::Array(out)).unwrap())
                    .expect("write");
                std::process::exit(3);
            }
        }
    }
    std::fs::write(&args[2], serde_json::to_string(&Value::Array(out)).unwrap()).expect("write");
}
